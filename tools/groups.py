#!/usr/bin/env python3
"""groups.py <PROP> [n]: group replay records by (first fields, last field) of their signature and print examples"""
import json, glob, sys, collections
prop = sys.argv[1]
n = int(sys.argv[2]) if len(sys.argv) > 2 else 2
g = collections.defaultdict(list)
for f in glob.glob('/verif/replays/%s-*.json' % prop):
    r = json.load(open(f))
    p = r['sig'].split('|')
    g[(p[1], p[2] if len(p) > 3 else '', p[-1])].append(r)
for k, rs in sorted(g.items(), key=lambda kv: -len(kv[1])):
    print(len(rs), k)
    for r in rs[:n]:
        c = r['case']
        print('     ', (c.get('text') or c.get('src') or json.dumps(c))[:230].replace('\n', ' '), '=>', r['actual'][:120])
