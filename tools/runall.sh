#!/bin/bash
# runs every registered quick (or thorough) check and prints one summary line each
tier=${1:-quick}
cd /verif
for c in $(python3 -c "import json; print(' '.join(x['property_id'] for x in json.load(open('MANIFEST.json'))['checks']))"); do
  start=$(date +%s)
  out=$(MC_NOBUILD=${MC_NOBUILD:-} ./check $c $tier 2>&1); rc=$?
  echo "$c rc=$rc $(( $(date +%s) - start ))s :: $(echo "$out" | tail -1 | cut -c1-230)"
done
