#!/usr/bin/env python3
"""probe.py '<source>' name...  — feed a text, instantiate, print the named top-level values (and output); debugging aid"""
import sys, json
sys.path.insert(0, '/verif')
from mc import core
src = sys.argv[1]
names = sys.argv[2:]
job = {'id': 0, 'limits': {}, 'dump': {'max_items': 32}, 'steps': [{'feed': src}, {'op': 'inst'}] + [{'op': 'get', 'name': n} for n in names]}
r = core.Runner(); rep = r.run(job, timeout=30); r.stop()
if 'fatal' in rep:
    print('FATAL', rep); sys.exit()
rs = rep['replies']
print('feed:', json.dumps(rs[0].get('v'))[:600])
print('inst:', json.dumps(rs[1].get('v'))[:300], 'out=%r' % rs[1].get('c', {}).get('out'))
for n, x in zip(names, rs[2:]):
    print(n, '=', repr(core.decode(x['v']))[:300], ('out=%r' % x['c']['out']) if x.get('c', {}).get('out') else '')
