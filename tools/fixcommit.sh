#!/bin/bash
# usage: tools/fixcommit.sh "fix: message"   — builds /repo, runs the pinned suite, commits ONLY if everything passes
set -e
cd /repo
out=$(cargo test --workspace --no-fail-fast --offline 2>&1 | grep -E "^test result|FAILED|^error" || true)
echo "$out"
if echo "$out" | grep -q "FAILED\|^error"; then echo "NOT COMMITTED: suite fails"; exit 1; fi
if ! echo "$out" | grep -q "420 passed"; then echo "NOT COMMITTED: unexpected suite summary"; exit 1; fi
git commit -qam "$1" && git log --oneline | head -1
