#!/usr/bin/env python3
"""helper to append entries to known_findings.json (used by hand while triaging, never by a check)
usage: kf.py fixed <property> <commit> <what>   |  kf.py known <property> <id> <what> <sig>..."""
import json, os, sys
P = os.path.join(os.path.dirname(os.path.dirname(os.path.abspath(__file__))), 'known_findings.json')
d = json.load(open(P)) if os.path.exists(P) else {'findings': []}
a = sys.argv[1:]
if a[0] == 'fixed':
    d['findings'].append({'status': 'fixed', 'property': a[1], 'commit': a[2], 'what': a[3],
                          'line': 'fixed: property=%s %s %s' % (a[1], a[2], a[3])})
elif a[0] == 'known':
    d['findings'].append({'status': 'known', 'property': a[1], 'id': a[2], 'what': a[3], 'sigs': a[4:]})
json.dump(d, open(P, 'w'), indent=1)
