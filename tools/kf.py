#!/usr/bin/env python3
"""helper to append entries to known_findings.json (used by hand while triaging, never by a check)
usage: kf.py fixed <property> <commit> <what>   |  kf.py known <property> <id> <what> <sig>..."""
import json, os, sys
P = os.path.join(os.path.dirname(os.path.dirname(os.path.abspath(__file__))), 'known_findings.json')
d = json.load(open(P)) if os.path.exists(P) else {'findings': []}
a = sys.argv[1:]
if a[0] == 'fixed':
    d['findings'].append({'status': 'fixed', 'property': a[1], 'commit': a[2], 'what': a[3],
                          'line': 'fixed: property=%s %s %s' % (a[1], a[2], a[3])})
elif a[0] == 'known':
    d['findings'].append({'status': 'known', 'property': a[1], 'id': a[2], 'what': a[3], 'sigs': a[4:]})
elif a[0] == 'from-replays':
    # kf.py from-replays <property> <id> <what> <substring>...   (collects the exact failing signatures currently in replays/)
    import glob
    prop, kid, what, subs = a[1], a[2], a[3], a[4:]
    sigs = []
    for f in sorted(glob.glob(os.path.join(os.path.dirname(P), 'replays', '%s-*.json' % prop))):
        r = json.load(open(f))
        if all(s in r['sig'] for s in subs):
            sigs.append(r['sig'])
    ex = [f for f in d['findings'] if f.get('id') == kid]
    if ex:
        ex[0]['sigs'] = sorted(set(ex[0]['sigs']) | set(sigs)); ex[0]['what'] = what
    else:
        d['findings'].append({'status': 'known', 'property': prop, 'id': kid, 'what': what, 'sigs': sorted(sigs)})
    print('%s: %d signatures' % (kid, len(sigs)))
json.dump(d, open(P, 'w'), indent=1)
