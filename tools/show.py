#!/usr/bin/env python3
"""show.py <PROP> <group-substring> [n]: print replay records whose signature contains the substring"""
import json, glob, sys
prop, sub = sys.argv[1], sys.argv[2]
n = int(sys.argv[3]) if len(sys.argv) > 3 else 5
k = 0
for f in sorted(glob.glob('/verif/replays/%s-*.json' % prop)):
    r = json.load(open(f))
    if sub in r['sig']:
        print(r['sig'][:200]); print('   src:', (r['case'].get('src') or r['case'].get('decl') or json.dumps(r['case']))[:300]); print('   exp:', r['expected'][:200]); print('   act:', r['actual'][:300])
        k += 1
        if k >= n: break
