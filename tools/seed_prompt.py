#!/usr/bin/env python3
"""prints the prompt for a seeding sub-agent: only the property text and its scratch worktree"""
import json, sys
pid, wt, n = sys.argv[1], sys.argv[2], (sys.argv[3] if len(sys.argv) > 3 else '2')
for l in open('/verif/properties.jsonl'):
    p = json.loads(l)
    if p['id'] == pid:
        break
print(f"""You are helping to evaluate a verification effort by playing the adversary. Work ONLY inside the git worktree {wt} (a scratch checkout of the Rust project "xray": a statically typed functional scripting-language interpreter; sources in src/, the language standard library partly in src/builtin/include.rs, documentation in book/src, test scripts in test_scripts/). Do not read or touch /verif or /repo. There is no network.

Property that is supposed to hold for this code base:
  "{p['title']}": {p['statement']}
  (quantified: {p['quantifier']['text']})

Task: produce {n} DIFFERENT, independent source changes (each one small, realistic — the kind of slip a maintainer could make while refactoring or optimising) that BREAK this property while the project still compiles and the existing test suite still passes. Prefer changes that need something specific to manifest (an unusual operand, a particular magnitude or index, a multi-step sequence of operations, a specific representation, two cooperating sites) rather than ones that any ordinary use exposes at once. Do not change tests, docs or Cargo files. Do not merely delete functionality or make a function always fail.

For each change k = 1..{n}:
 1. make the edit in the worktree, run `cd {wt} && cargo test --offline 2>&1 | tail -5` and confirm all tests pass (the first build takes a few minutes; set CARGO_TARGET_DIR={wt}/target);
 2. write a demonstration: a small xray program saved as {wt}/seed{'{k}'}/demo.xr whose `fn main()->bool` returns true on the ORIGINAL code and false (or errors / panics) with your change. You can run a program by temporarily putting it in test_scripts as NNN_name.xr with a matching #[test] in tests/run_scripts.rs, or by editing src/main.rs and `cargo run --offline` — but remove such scaffolding afterwards; the demo file itself stays only under seed{'{k}'}/;
 3. save the change as a patch: `git -C {wt} diff -- src > {wt}/seed{'{k}'}/patch.diff` (the patch must contain ONLY the property-breaking source change), and write {wt}/seed{'{k}'}/README.md with: what was changed, why it breaks the property, what specific input/sequence is needed to see it, and the exact commands you ran with their observed results (tests passing with the change; demo true without, false/err with);
 4. revert the worktree (`git -C {wt} checkout -- .`) before starting the next change, keeping the seed{'{k}'} directories (they are untracked).
Finish by listing the seed directories you produced and a one-line summary of each. Keep it efficient: do not explore more than needed.""")
