#!/usr/bin/env python3
"""DESIGN.md = tools/design/part1.md (with generated tables) + tools/design/part2.md (the original design text)"""
import json, os, subprocess, sys
V = os.path.dirname(os.path.dirname(os.path.abspath(__file__)))
sys.path.insert(0, os.path.join(V, 'tools'))
import gen_design_tables as g
p1 = open(os.path.join(V, 'tools/design/part1.md')).read()
m = json.load(open(os.path.join(V, 'MANIFEST.json')))
titles = {}
for l in open(os.path.join(V, 'properties.jsonl')):
    d = json.loads(l)
    titles[d['id']] = d['title']
props = []
for c in m['checks']:
    props.append('* **%s — %s.** %s *Limits of the claim:* %s' % (c['property_id'], titles[c['property_id']], c['level_claimed']['text'], c['level_note']))
p1 = p1.replace('{{checks}}', g.checks_table()).replace('{{fixes}}', g.fixes_table()).replace('{{known}}', g.known_table()).replace('{{seeds}}', g.seeds_table()).replace('{{props}}', '\n'.join(props))
import glob
metas = [json.load(open(f)) for f in glob.glob(os.path.join(V, 'seeded', '*', 'meta.json'))]
p1 = p1.replace('{{nseeds}}', str(len(metas))).replace('{{ndetected}}', str(sum(1 for m in metas if m.get('detected')))).replace('{{nstrengthened}}', str(sum(1 for m in metas if m.get('detected_after_strengthening'))))
p2 = open(os.path.join(V, 'tools/design/part2.md')).read()
head = ('\n# Part II — the design as written before the code (kept for its reasoning; superseded by Part I where they differ)\n\n'
        'Section numbers of this part are referred to as §II.n from Part I. "Status: design only" was true when it was written.\n\n')
open(os.path.join(V, 'DESIGN.md'), 'w').write(p1 + head + p2)
print('DESIGN.md: %d lines' % (p1 + head + p2).count('\n'))
