#!/usr/bin/env python3
"""prints the generated tables of DESIGN.md Part I (checks / evidence, fixes, known findings, seeded changes) as markdown;
tools/assemble_design.py splices them between the markers of DESIGN.md"""
import json, glob, os, sys
V = os.path.dirname(os.path.dirname(os.path.abspath(__file__)))


def checks_table():
    m = json.load(open(os.path.join(V, 'MANIFEST.json')))
    out = ['| property | deciding technique | last run: cases / non-trivial | last run wall | outcome classes seen |', '|---|---|---|---|---|']
    for c in m['checks']:
        pid = c['property_id']
        ev = {}
        p = os.path.join(V, 'evidence', pid + '.json')
        if os.path.exists(p):
            ev = json.load(open(p))
        cov = ev.get('coverage', {})
        out.append('| %s | %s | %s / %s (%s) | %s s | %s |' % (
            pid, c['technique'], cov.get('evaluations', '?'), cov.get('distinct_nontrivial', '?'), ev.get('tier', '?'),
            ev.get('wall_s', '?'), ', '.join(sorted((cov.get('distinct_outcomes') or {}).keys())[:8]) if isinstance(cov.get('distinct_outcomes'), dict) else cov.get('distinct_outcomes', '')))
    return '\n'.join(out)


def fixes_table():
    d = json.load(open(os.path.join(V, 'known_findings.json')))
    out = ['| # | property | commit | what failed |', '|---|---|---|---|']
    n = 0
    for f in d['findings']:
        if f['status'] == 'fixed':
            n += 1
            out.append('| %d | %s | %s | %s |' % (n, f['property'], f['commit'], f['what'].replace('|', '\\|')))
    return '\n'.join(out)


def known_table():
    d = json.load(open(os.path.join(V, 'known_findings.json')))
    out = ['| id | property | failing signatures listed | what fails |', '|---|---|---|---|']
    for f in d['findings']:
        if f['status'] == 'known':
            out.append('| %s | %s | %d | %s |' % (f['id'], f['property'], len(f.get('sigs', [])), f['what'].replace('|', '\\|')))
    return '\n'.join(out)


def seeds_table():
    out = ['| seeded change | what it changes (from its README) | detected by | first violation reported |', '|---|---|---|---|']
    for d in sorted(glob.glob(os.path.join(V, 'seeded', '*', ''))):
        m = json.load(open(os.path.join(d, 'meta.json')))
        title = ''
        rd = os.path.join(d, 'README.md')
        if os.path.exists(rd):
            for line in open(rd):
                if line.startswith('#'):
                    title = line.lstrip('# ').strip()
                    break
        chk = m.get('checks', {})
        first = ''
        by = []
        for c, v in chk.items():
            if v.get('exit') == 1 and v.get('violations'):
                by.append('`./check %s`' % c)
                if v.get('first_violation') and not first:
                    first = v['first_violation'].strip()[5:].strip()
        first = first.encode('ascii', 'replace').decode()[:110].replace('|', '\\|')
        if m.get('detected'):
            det = ', '.join(by) + (' (after strengthening)' if m.get('detected_after_strengthening') else '')
        else:
            det = '**not detected** — ' + (m.get('note') or m.get('outside_property') or 'see meta.json')[:260]
        out.append('| %s | %s | %s | %s |' % (m['name'], title.replace('|', '\\|')[:140], det.replace('|', '\\|'), '`%s`' % first if first else ''))
    return '\n'.join(out)


if __name__ == '__main__':
    which = sys.argv[1]
    print({'checks': checks_table, 'fixes': fixes_table, 'known': known_table, 'seeds': seeds_table}[which]())
