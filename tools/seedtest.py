#!/usr/bin/env python3
"""seedtest.py <PROP> <worktree> <seeddir> <name> [check ...]
Confirms a seeded change (tests pass with it in the scratch worktree; demo true without / not true with it), runs the
named checks (default: the property's quick check) against /repo with the patch applied, reverts, and stores the seed under
/verif/seeded/<name>/ with meta.json.  Never commits anything in /repo."""
import json, os, subprocess, sys, shutil
V = '/verif'
sys.path.insert(0, V)


def sh(cmd, cwd=None, timeout=3600):
    p = subprocess.run(cmd, shell=True, cwd=cwd, stdout=subprocess.PIPE, stderr=subprocess.STDOUT, text=True, timeout=timeout)
    return p.returncode, p.stdout


def demo_config(demo):
    """limits / permissions from an optional demo.toml (same format as test_scripts/NNN.toml)"""
    import tomllib
    p = os.path.join(os.path.dirname(demo), 'demo.toml')
    limits, perms = {}, {}
    if os.path.exists(p):
        cfg = tomllib.load(open(p, 'rb'))
        l = cfg.get('limits', {})
        for k, mine in (('size_limit', 'size'), ('depth_limit', 'depth'), ('recursion_limit', 'recursion'), ('ud_call_limit', 'calls'), ('maximum_search', 'search')):
            if k in l:
                limits[mine] = l[k]
        if 'time_limit' in l:
            limits['time0'] = True
        for x in l.get('forbidden_permissions', []):
            perms[x] = False
        for x in l.get('allowed_permissions', []):
            perms[x] = True
    return limits, perms


def run_demo(demo):
    from mc import core
    src = open(demo).read()
    limits, perms = demo_config(demo)
    job = {'id': 0, 'limits': limits, 'perms': perms, 'steps': [{'feed': src}, {'op': 'inst'}, {'op': 'call', 'name': 'main'}, {'op': 'stats'}]}
    r = core.Runner(); rep = r.run(job, timeout=60); r.stop()
    if 'fatal' in rep:
        return 'fatal:' + rep['fatal']
    vs = [x.get('v') for x in rep['replies'] if 'v' in x]
    outs = ''.join(x.get('c', {}).get('out', '') for x in rep['replies'])
    if 'ok' in vs[0] and 'ok' in vs[1]:
        return json.dumps(vs[2])[:300] + (' out=%r' % outs[:200] if outs else '')
    return json.dumps(vs[:2])[:400]


def main():
    prop, wt, seed, name = sys.argv[1:5]
    checks = sys.argv[5:] or ['%s quick' % prop]
    patch = os.path.join(seed, 'patch.diff')
    demo = os.path.join(seed, 'demo.xr')
    meta = {'property': prop, 'name': name, 'ran': [], 'applies_to_repo_commit': sh('git -C /repo log -1 --format=%h')[1].strip()}
    assert sh('git -C /repo status --porcelain --untracked-files=no')[1].strip() == '', '/repo is dirty'
    # 1. tests in the scratch worktree with the change
    rc, out = sh('git apply %s' % patch, cwd=wt)
    assert rc == 0, out
    rc, out = sh('CARGO_TARGET_DIR=%s/target cargo test --offline 2>&1 | grep -E "^test result|FAILED|error(\\[|:)"' % wt, cwd=wt)
    sh('git checkout -- .', cwd=wt)
    tests_ok = 'FAILED' not in out and 'error' not in out and '420 passed' in out and '13 passed' in out
    meta['suite_with_change'] = out.strip().splitlines()
    meta['suite_passes_with_change'] = tests_ok
    # 2. demo on the unchanged tree
    from mc import core
    core.build()
    meta['demo_without_change'] = run_demo(demo)
    # 3. with the change applied to /repo
    rc, out = sh('git -C /repo apply %s' % patch)
    assert rc == 0, out
    try:
        core.build()
        meta['demo_with_change'] = run_demo(demo)
        meta['checks'] = {}
        for c in checks:
            rc, out = sh('MC_NOBUILD=1 ./check %s' % c, cwd=V)
            viol = [l for l in out.splitlines() if l.startswith('VIOLATION')]
            meta['checks'][c] = {'exit': rc, 'violations': len(viol), 'summary': out.strip().splitlines()[-1][:400],
                                 'first_violation': next((l for l in out.splitlines() if l.strip().startswith('sig:')), None)}
            meta['ran'].append('git -C /repo apply patch.diff && ./check %s && git -C /repo checkout -- .' % c)
    finally:
        sh('git -C /repo checkout -- .')
        core.build()
    meta['detected'] = any(v['exit'] == 1 and v['violations'] > 0 for v in meta['checks'].values())
    dst = os.path.join(V, 'seeded', name)
    os.makedirs(dst, exist_ok=True)
    shutil.copy(patch, os.path.join(dst, 'patch.diff'))
    shutil.copy(demo, os.path.join(dst, 'demo.xr'))
    if os.path.exists(os.path.join(seed, 'demo.toml')):
        shutil.copy(os.path.join(seed, 'demo.toml'), os.path.join(dst, 'demo.toml'))
    meta['demo_outcome_differs'] = meta['demo_without_change'] != meta['demo_with_change']
    readme = os.path.join(seed, 'README.md')
    if os.path.exists(readme):
        shutil.copy(readme, os.path.join(dst, 'README.md'))
        meta['needs'] = 'see README.md (written by the sub-agent that produced the change)'
    json.dump(meta, open(os.path.join(dst, 'meta.json'), 'w'), indent=1)
    print(json.dumps({k: meta[k] for k in ('suite_passes_with_change', 'demo_without_change', 'demo_with_change', 'detected')}, indent=1))
    for c, v in meta['checks'].items():
        print(c, '->', v['exit'], v['violations'], v['first_violation'])


if __name__ == '__main__':
    main()
