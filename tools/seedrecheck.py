#!/usr/bin/env python3
"""seedrecheck.py <seed-name> [check ...] — re-runs checks against an already stored seeded change (patch applied to /repo and
reverted straight afterwards) and updates seeded/<name>/meta.json.  Used after a check was strengthened."""
import json, os, subprocess, sys
V = '/verif'


def sh(cmd, cwd=None):
    p = subprocess.run(cmd, shell=True, cwd=cwd, stdout=subprocess.PIPE, stderr=subprocess.STDOUT, text=True)
    return p.returncode, p.stdout


name = sys.argv[1]
d = os.path.join(V, 'seeded', name)
meta = json.load(open(os.path.join(d, 'meta.json')))
checks = sys.argv[2:] or ['%s quick' % meta['property']]
assert sh('git -C /repo status --porcelain --untracked-files=no')[1].strip() == '', '/repo is dirty'
rc, out = sh('git -C /repo apply %s/patch.diff' % d)
assert rc == 0, out
try:
    for c in checks:
        rc, out = sh('./check %s' % c, cwd=V)
        viol = [l for l in out.splitlines() if l.startswith('VIOLATION')]
        meta.setdefault('checks', {})[c] = {'exit': rc, 'violations': len(viol), 'summary': out.strip().splitlines()[-1][:400],
                                            'first_violation': next((l for l in out.splitlines() if l.strip().startswith('sig:')), None)}
        print(c, '->', rc, len(viol), meta['checks'][c]['first_violation'])
finally:
    sh('git -C /repo checkout -- .')
    sys.path.insert(0, V)
    from mc import core
    core.build()      # never leave a runner built from the changed tree behind
was = meta.get('detected')
meta['detected'] = any(v['exit'] == 1 and v['violations'] > 0 for v in meta['checks'].values())
if meta['detected'] and not was:
    meta['detected_after_strengthening'] = True
meta['rechecked_at_repo_commit'] = sh('git -C /repo log -1 --format=%h')[1].strip()
json.dump(meta, open(os.path.join(d, 'meta.json'), 'w'), indent=1)
