#!/usr/bin/env python3
"""writes /verif/MANIFEST.json from the table below (kept in one place so it is always valid)"""
import json, os, subprocess
V = os.path.dirname(os.path.dirname(os.path.abspath(__file__)))

CHECKS = {
    'C14': ('model_checking', '§5 C14',
            'Every integer builtin on the complete product of an edge-value pool (0, ±1, ±2^31, ±2^63±2, ±2^64, ±2^127, 10^38, 3^100, 2^400-1, ...) compared in lock-step with Python int; canonical-form law over 7 computation routes per value. Also: the bases 0, 1, -1 raised to exponents of every magnitude and parity up to 2^200.',
            'Python int, fractions.Fraction and math.comb are the reference; pool values only (a defect needing another operand is missed).',
            'bounded-exhaustive term enumeration vs reference model (Python int)'),
}

CHECKS['C18'] = ('model_checking', '§5 C18',
    'Every string builtin on every string of <=3 characters over an alphabet mixing 1-4 byte characters, combining marks and case-expanding characters (plus 20 longer strings), with every index in {-len-1..len+5} and every 1-2 character needle, compared in lock-step with Python str; every literal spelling of <=3 pieces x quote kind x fence depth 0-2 x prefix {plain, r, f} compared with a reference unescaper; each string result is re-probed (len, chars, concatenation). The longer strings include titlecase letters, final sigma and ligatures.',
    'Python str/upper/lower are the reference; out-of-range slices may be an error or the clamped slice; \\u{..} inside f-strings is treated as unspecified.',
    'bounded-exhaustive term enumeration vs reference model (Python str)')

CHECKS['C13'] = ('exploration', '§5 C13',
    'Every static overload whose return type carries a float (float, Complex, Duration, Datetime, JSON, Matrix, LinearRegression and containers of them) is called on the complete product (arity<=2) of edge-value pools (0, -0, subnormal, 1e-300, 709.79, 1e155, 1e300, DBL_MAX, huge integers up to 10^400); plus operators, dynamic statistics, literal spellings and JSON numbers. Oracle is a range claim: no float with an all-ones exponent anywhere in the dumped result. Quantile probabilities include values an ulp outside [0, 1].',
    'Pools are finite; a function that overflows only at another operand is missed. No reference values are compared (that is C02/C14/C20).',
    'bounded-exhaustive enumeration of call terms with a range oracle')

CHECKS['C11'] = ('model_checking', '§5 C11',
    'Complete finite product: 18 effectful builtins x 11 reaching/non-reaching paths (direct, in function, returned closure, map/filter/reduce callbacks, default parameter, nested fn, lazy element never forced, unselected branch, uncalled function) x permission assignments (quick: all 64 explicit + unset variants; thorough: all 3^6 allow/forbid/unset). Permitted => effect observed on the recording writer/clock/RNG; forbidden => PermissionError(id) and every double untouched for that call; unreached => nothing.',
    'Writer, clock and RNG are recording doubles injected by the runner; regex and sleep have no double so only their outcome is checked.',
    'exhaustive enumeration of a finite configuration product with recording doubles')
CHECKS['C08'] = ('model_checking', '§5 C08',
    'A corpus of programs with closed-form nesting depth, call count, tail-iteration count and search length is run under every limit value L from 1 to beyond the need, each of the four limits separately and all four combined: violation exactly at the documented threshold, otherwise dump and output identical to the unlimited run; the call counter read through the hook equals the closed form; library functions written in the language are checked for coverage and monotone thresholds. All host-call histories (run, run, erroring run, two kinds of reset) up to length 4 (6 thorough) on one runtime for L in 1..8 are compared with a counter model. Also: searches over finite sequences that examine exactly k elements (threshold exact), calls skipped because of an error argument (not counted).',
    'Closed-form counts are derived by hand from the book for each template; programs outside the corpus are not covered.',
    'fault-point sweep over every limit value + explicit-state enumeration of host-call histories vs counter model')

CHECKS['C09'] = ('fault_enumeration', '§5 C09',
    'For every program of a corpus of value builders (big ints, strings, every copying sequence update, stacks, sets, mappings, closures, compounds, generators, failing programs) the allocation trace of an unlimited run gives every cumulative total; the program is re-run with the size limit just below and at every distinct total, around the peak and below the library baseline (thorough: every 8 bytes from baseline to peak). Checked on every run: violation kind, monotonicity in L, peak <= L on passing runs, result independent of L, accounted level back to the pre-run level after dropping results and after a violation, exactly zero after everything is dropped, payload lower bound, no underflow. Also: conservation for every static library overload on small pools (the accounted level returns to its pre-call value after the result is dropped, twice in a row).',
    'Allocation totals come from a read-only trace hook in Runtime::allocate; pre-flight checks may refuse earlier than the exact peak (allowed); corpus is finite.',
    'fault-point enumeration: size limit placed at every allocation threshold of each run')

CHECKS['C17'] = ('model_checking', '§5 C17',
    'Explicit-state BFS to a fixpoint: from the empty mapping / set, every documented update (set, set_default, pop, discard, clear, update from generators and from other states, update_from_keys, map_values, add, remove, set algebra) over a key universe of 3-5 keys and 2 values, for 8 hash/equality configurations (injective, constant, modular hashes; equality coarser than identity; extreme hash values; the dynamic constructors). State key = (abstract finite map over equivalence classes, multiset of bucket sizes), so layouts that differ only internally are distinct states. Every edge observes len, lookup/contains/get(+default) for every key, sorted entries/keys/values, eq and hash against a freshly built equal collection, subset relations — on the post-state and again on the pre-state (persistence). Since the reachable space is finite and closed, every history of any length is a path of the explored graph. Also: equality, order and set algebra between collections holding the same elements but built over different hash functions (all pairs of the identity-equality configurations, all pairs of subsets).',
    'Key universe and value universe are small; which of several equal keys is stored and iteration order are unspecified and normalised; inconsistent hash/eq pairs are not explored.',
    'explicit-state BFS to fixpoint on the real collections with per-transition conformance to an association-list model')
CHECKS['C15'] = ('model_checking', '§5 C15',
    'Explicit-state BFS over Sequence<int> values from literal arrays, ranges of every step sign (and 64-bit edge ranges), empty sequences and infinite sequences: every copying update, slice, concatenation (with earlier states), map, sort, filter, repeat with indices at -len-1..len+1 and 2^64; state key = (model list, representation path such as Slice(Chain(Array,Range))), so every lazy representation of the same list is a separate state. Every edge observes len, every index, the forced elements, eq/cmp/hash/to_str against the literal list, searches and folds on the post-state and again on the pre-state. Quick: depth 2 (2.8k states, 11k edges); thorough: depth 3 (54k states, 256k edges). Also: every bracketing of a concatenation of 2-6 (thorough 7) parts of different representations; ranges whose index arithmetic leaves 64 bits; repeat of infinite sequences.',
    'Python lists are the reference; requests the book leaves open (take/skip beyond the end, insert at len or negative, repeat(0)) accept the list result or an error value; infinite sequences are modelled by a 48-element prefix.',
    'explicit-state BFS over operation histories with per-transition conformance to a list model')
CHECKS['C16'] = ('model_checking', '§5 C16',
    'Part A: explicit-state BFS over Generator<int> values (finite, empty, infinite, successors) with every adaptor (map, filter, take, skip, take_while, skip_until, add with earlier states, aggregate x2, repeat, distinct; zip/enumerate/windows/chunks/group/with_count/flatten/product/unzip as terminal observations) and every consumer (to_array twice, len, get, nth, first, last, reduce, any/all/count, contains, min/max, join) on the post-state and again on the pre-state. Part B: every pipeline of <=2 (thorough 3) adaptors over a ticking infinite source x 3 consumers: the source elements actually evaluated (recorded by the writer double) are in order, once each, and at most what a lazy reference pipeline pulls plus a constant look-ahead per adaptor. Also: enumerate with negative / zero / descending starts and steps, repeat of infinite streams (nothing consumed up front), flatten of an empty outer generator.',
    'Python lists/itertools are the reference; infinite generators are modelled by a 64-element prefix; look-ahead constants are part of the oracle (window width, chunk size, 2 for group, 1 otherwise).',
    'explicit-state BFS with per-transition conformance + exhaustive pipeline enumeration with an evaluation-count oracle')

CHECKS['C20'] = ('model_checking', '§5 C20',
    'JSON: documents (20 atoms incl. escapes, controls, non-BMP, extreme doubles; arrays and objects to nesting depth 1/2) are built with the constructors, serialised and parsed by Python json (strict, duplicate-key and NaN rejecting), and Python-produced texts in three styles are deserialised, compared in-language and re-serialised; malformed texts must give error values. Dates: every Julian day in +-3,000,000 (thorough; quick: +-40 days around every 400-year/leap/century boundary plus a stride) is checked in-language for round trip, strict order and weekday, and calendar fields are compared with a civil-from-days reference (self-checked against datetime.date). Datetime<->unix at minute/hour/day boundaries with exact binary fractions. Fractions: constructor normalisation on the full product of a 17-value pool (incl. 2^62+1, +-2^64, 2^70-1, zero denominators) and all arithmetic against fractions.Fraction. to_int/format/digits in every base 2..36 over the integer pool; chr/code_point for every scalar value 0..0x10FFFF (surrogates and beyond must be errors). Also: fractions whose numerator and denominator share a factor beyond 64 bits (the reduced parts must be the small integers: compared inside the language); every lone control character in JSON strings and keys.',
    'Python json / fractions / int / chr and the civil-from-days algorithm are the references; JSON numbers compared as doubles, key order ignored; datetime fractions restricted to exactly representable ones.',
    'bounded-exhaustive enumeration vs independent reference implementations (incl. a full sweep of the documented day range)')

CHECKS['C19'] = ('model_checking', '§5 C19',
    'Laws over every same-type pair (and triples of the smallest values) of complete small universes per static type (int, str, float, bool, tuples, Sequence incl. lazy representations of the same list, Optional, Stack, Set, Mapping, nested types): eq reflexive/symmetric/transitive, eq => equal hash, hash range, cmp antisymmetric/transitive/lexicographic and consistent with the relational operators and min/max, to_str shape, format(x,"")==to_str(x). The complete product of the format-specifier grammar (fill x align x sign x # x 0 x width x grouping x mode; precision for floats) against a formatter written from the book (Python format() for floats/strings, which shares the grammar). Sorting: all lists over {0,1,2} up to length 6/8, stability on (key, tag) pairs, preorder comparators, order statistics, and structured lists (lengths 9..200: runs split at every position, descending runs of every length) against a stable reference. Failing comparator: for each list, a violation (call limit) at the k-th comparator call for every k and an error value at every distinct compared pair; the outcome must be exactly that failure and the accounted byte level must return to its pre-call value (no element lost, duplicated or leaked). The float universe includes negative zero; the failing-comparator sweep includes inputs with long ascending / descending runs.',
    'Facets the book leaves open are not compared (grouping with non-decimal modes, # without mode, X digit case, shape of scientific notation, rank base of nth_smallest). The accounted level read through the hook is the witness for element loss/duplication.',
    'bounded-exhaustive law checking over complete universes + fault-point enumeration (failure at every comparison)')

CHECKS['C06'] = ('fault_enumeration', '§5 C06',
    'Part A: an error value with a distinct message is injected at every argument position (singly; pairs for arity<=2 and in the thorough tier) of every static library overload (generics bound to int), of user functions, generic user functions, functions with defaults, lambdas, function values and partials (a display in the body makes "the body did not run" observable), and of every construction and collection insertion; the result must be the leftmost error, collections dumped by the hook must never contain an error node; the documented handlers and short-circuit functions follow a per-position table written from the book. Part B: 43 catcher contexts (if_error/is_error/get_error, nesting, optional/bool combinators, every lazy adaptor and callback position, default parameters, f-strings) x 7 violation sources (depth, calls, recursion, two search paths, permission, allocation) x every limit value at which the source trips: the host must receive exactly that violation.',
    'Whether arguments right of an erroring argument are evaluated is unspecified; set_default skipping its value for a present key is pinned by the shipped suite and not demanded; pool values that do not type are skipped.',
    'fault injection at every argument position + limit sweep through every catcher context')

CHECKS['C07'] = ('model_checking', '§5 C07',
    '31 recursive-function templates place the self-call in every syntactic position: tail carriers (if branches, nested if, if_error 2nd/3rd, and/or second operand, Optional or (both overloads)/and/map_or default, cast, to_str, local lets) and non-tail positions (under an operator, argument of a user function, inside a called lambda / nested fn, array and tuple literals, if condition, first operand of and / if_error / Optional or, map callback, mutual recursion), plus alias and partial (value only). For iteration counts 0,1,2,3,7,50,1000 (100000 thorough) and limit configurations: the value equals plain recursion; tail carriers pass depth limit 4 for every n, make no additional user calls per iteration (hook counter), and end in MaximumRecursion exactly when n exceeds the limit (L in n-1,n,n+1); non-tail positions end in MaximumStackDepth under depth 3 and never in MaximumRecursion. Also: self-calls under member / variant access and indexing (not tail positions), tail calls to another closure of the same literal, to another overload and to a function of the same shape.',
    'The reference evaluator has no TCO (plain recursion); classification of each template as tail / non-tail is by the book rule; alias/partial may be optimised or not.',
    'exhaustive enumeration of call positions x iteration counts x limit configurations vs reference semantics without TCO')

CHECKS['C10'] = ('exploration', '§5 C10',
    'Under search=50 and calls=200 (with and without an 8 MiB size limit) and a 5 s per-case watchdog: every generator pipeline source (infinite, huge, empty, repeat of empty, successors) x <=1 adaptor plus all pairs led by the adaptors that iterate internally (quick) / all pairs and hot triples (thorough, 330k cases) x 15 consumers; every infinite or huge sequence x 34 consuming builtins; 60 adversarial numeric calls (digits with bases <2 and 2^70, binom/multinom/combination/permutation with 10^6..2^70, pow(2,10^9), 10**(10**6) then to_str/digits/format, factorial(10^6), "a"*10^12, huge windows/chunks/repeat counts, deep JSON nesting, padding widths of 10^10). A case must return a value, an error or a violation; a hang or an abort of the process is a violation. With time_limit=0: programs with a user call end in Timeout and no function body prints; programs without user calls are unaffected. Also: the time limit combined with every other limit, a deadline that passes in mid-run after k = 0..17 calls, inside a tail-recursive loop and inside plain recursion; whole-sequence builtins on infinite sequences built by zip / enumerate / map / skip.',
    'Establishes "no enumerated case exceeds the budget", not termination in general; memory-hungry cases run only with the size limit; timing other than "already elapsed" is not explored (Instant::now is not behind a seam).',
    'bounded-exhaustive enumeration of pipelines and adversarial arguments under a watchdog')

CHECKS['C12'] = ('exploration', '§5 C12',
    'Every token string of <=3 tokens over a 51-token alphabet taken from the grammar (140k texts; thorough: all 6.8M strings of 4 tokens through the public parser, and a compilation scope for every one that parses); every numeric-literal spelling of <=5/6 characters over {0,1,9,_,.,e,E,-,x,b,a,f} plus digit runs to 400, hex runs to 140, exponents to +-400 (accepted literals are evaluated and compared with Python\'s reading; unrepresentable ones must be compile errors); every single-token deletion, duplication, replacement by 14 tokens and adjacent swap of the shipped scripts and book examples (quick: the 40 shortest scripts and 25 shortest examples); bracket / operator / type / lambda / f-string nesting at depths 1..64; programs whose evaluation would print, loop, allocate without bound or fail. Every chunk is compiled twice in separate processes: no panic, no hang, a rendered non-empty error, writer/clock/RNG untouched, identical verdicts and error texts. Also: specialization shapes f{t1..tm}(a1..an) with $ placeholders for m, n = 0..4; identifier spellings incl. itemN up to 40 digits in three declaration roles; accepted twins of the type-rendering programs; literals nested to depth 48/64 whose levels have different but unifiable types; error excerpts cut at every byte offset of multi-byte text.',
    'Token strings are joined by single spaces, mutations are single-point; determinism is checked between identical feed histories in two processes; error texts are only compared between runs.',
    'bounded-exhaustive enumeration of source texts with a totality / effect-freedom / determinism oracle')

CHECKS['C02'] = ('model_checking', '§5 C02',
    'Four exhaustively enumerated families compared in lock-step with a reference evaluator written in Python (mc/model/lang.py): (1) every operator string of <=2 (thorough: <=3) binary operators over all 17 operators x 5 unary prefixes, evaluated on a trace struct whose operator overloads record the parse, against a reference precedence climber; (2) every well-typed term of the core fragment (int/float/str/bool/Optional/Sequence/tuple/struct/union, if/else, &&/||, let-lambda, calls, member access, error leaves) up to a size bound over an edge-value pool, rendered both with operators and with the equivalent function-call sugar; (3) evaluation-order, exactly-once and short-circuit programs observed through the recording writer; (4) declaration programs (every ordering / shadowing / forward-reference arrangement of a small declaration alphabet). Value or error class must equal the reference on every term. Also: powers of floats over a sign / zero / integrality grid; programs whose size crosses index-width boundaries (2^7, 2^8, 2^16 declarations, parameters, fields, tuple items, variants, captured names, nesting levels, operator chains); a pool of integers at representation boundaries.',
    'Terms outside the fragment (generators, mappings, stdlib written in xray) are covered by C15-C20; powers above 2^256 and the sign of an integer zero divided by a negative long are skipped as unspecified; chained comparison mixes of < and > are skipped (grammar ambiguity with turbofish).',
    'bounded-exhaustive term enumeration vs reference evaluator')

CHECKS['C03'] = ('model_checking', '§5 C03',
    'Lock-step with a persistent-environment reference evaluator (mc/model/scope.py): (1) every declaration tree of <=3 (quick) / <=4-5 (thorough) declarations over {int let, named function, closure-returning function, let-bound lambda} x parameter shapes {none, shadowing parameter, printing default}, nesting depth <=3/4, with a maximal observation at every site (sum of every nameable int plus a call of every nameable callable, all literals distinct), rendered directly and with every callee transported through 7 routes (sequence, tuple, Optional, if, generic identity, stack, mapping), run nested in a lambda and at top level; (2) capture matrix: nesting depth 1..3/4 x {absent, before, after, parameter, both}^levels x {nested calls, escaping closures}; (3) defaults: creations x calls with counted output; (4) recursion through captured names, closures per iteration / recursion level; (5) forward declarations: every declaration order x use position x target x 6 ways of using a function, nested scopes, transitive dependants, and every route by which a forward-dependent function value can leave its scope; (6) 52 identifier spellings (itemN family, keyword prefixes, case, underscores) in 5 declaration roles plus all ordered pairs and tuple-member spellings. Also: overloaded forward declarations fulfilled in every order with transitive dependants; partial application (values kept, not expressions) as text cases and as a transport.',
    'Named functions get program-unique names (same-named functions aggregate into overloads: C05). Creating a lambda that depends on an unfulfilled forward declaration is expected to be a compilation error. Two known findings (C03-K1, C03-K2) concern forward declarations inside function bodies.',
    'bounded-exhaustive enumeration of declaration trees vs reference evaluator (persistent environments)')

CHECKS['C04'] = ('model_checking', '§5 C04',
    'Compile-only lock-step with a reference relation written from the documented rules (mc/model/types.py: assignability, least common type, generic binding). A: the complete (required, supplied) matrix over a type universe closed under Sequence / Optional / Generator / Stack / Mapping / Set / tuples of 0-3 / callables (written types, lambdas, named functions with optional parameters) / generic structs and unions with 0-2 parameters / the bottom type, to nesting depth 1 (quick, 57x62 types) or 2 (thorough, ~300x330 types), in 8 syntactic positions with a literal witness (let, argument, struct field, variant payload, return, default value, lambda return, method argument) and 5 with a parameter of the supplied type; B: 10 generic signature shapes x all argument tuples over a pool, result type probed (accepted at the expected type, rejected at single-leaf variations); C: 6 type-inferring forms (sequence literals of 2 and 3, if, concatenation, push, mapping set) x all part combinations with probes; D: calls through function values (parameter, let-bound lambda, element, immediate, struct field, named alias) x all argument tuples of arity 0-3; E: construction of compounds whose parameter occurs in several fields / variants, field counts, same-named declarations in different scopes. Accepted iff the reference says assignable. F: calls of generic functions from inside one and two levels of generic functions whose own type parameters have the same or other names (the caller\'s parameter is an opaque type), results bound to declared types, calls through the host\'s function-typed values; structs named like the generic parameters are declared first and must never matter.',
    'Error classes are not compared, only acceptance. A supplied type without a literal witness is only supplied as a parameter. Where two callables have identical component types but different optional-parameter windows the common type is treated as unspecified.',
    'bounded-exhaustive enumeration of type pairs / tuples vs reference relation')

CHECKS['C05'] = ('model_checking', '§5 C05',
    'Every set of 1-3 same-named user overloads (thorough: all sets of 4 and every 37th set of 5-6) from an alphabet of 19 signatures (11 non-generic incl. optional parameters and the empty list, 8 generic incl. two parameters, container-of-T and optional parameters) x every declaration order (all permutations up to 3) x 4 placements over scope levels (flat, call in a nested function, set split between levels, all nested) x 3 alpha-renamings of generic / value parameters (incl. a generic parameter named like a visible struct) x an added overload that can never match; plus 3 standard-library names (abs, len, push) with 0-2 user overloads; every call tuple of a 16-tuple pool. Reference: matching non-generic candidates, else matching generic ones; exactly one runs (each body returns its own tag), several = AmbiguousOverload, none = NoOverload. Calls whose argument types contain the bottom type have no reference outcome (outside the stated quantifier) and are checked for stability only: same outcome for every order, placement and renaming of one set. Also: call sites interleaved with declarations (the set grows between calls), three scope levels with every resolvable call made from one body (at top level and inside a function), calls from inside generic functions, a generic overload whose parameter occurs only in an omitted optional parameter, overloads with function-typed parameters called with named functions (optional parameters) and lambdas.',
    'Dynamic (factory) overloads are left out of the candidate sets: the chosen names have none that can match the pool.',
    'bounded-exhaustive enumeration of overload sets and call sites vs reference resolver + metamorphic stability')

CHECKS['C01'] = ('exploration', '§5 C01',
    'Every generated program is offered to the compiler and every one the COMPILER accepts is instantiated and executed; each binding is read with the static type the compiler assigned (hook), its dumped shape is checked against that type, and it is consumed by a type-directed eliminator (code generated from the static type that touches every component with natively typed operations, so a wrong dynamic tag panics). A: the (required, supplied) matrix of C04 (type universe to depth 1 quick / 2 thorough) flowing through 10 positions (let, argument, field, variant, return, default, lambda return, element, parameter return, parameter let); B: generic calls whose bodies return their arguments in rotated order, inferred-type forms, calls through function values, compound construction; C: every static standard-library overload on type-directed pools plus the complete product of edge values (representation boundaries, signed zero, extremes) for scalar signatures of arity <= 2, under a roomy and a tight limit configuration; D: compiling single-token mutants of the shipped scripts / book examples, instantiated and main run under limits. Oracle: never a panic, abort, hang or host error; every value has the shape of its static type. The library sweep follows every call that returns an int / float / Sequence of them with an operation that needs a well-formed result (an integer zero must compare equal to 0, a float must be finite); every dynamic (factory) function is applied to every value and pair of values from a pool of 38 differently shaped values (whatever the factory accepts must run); receivers include virtual sequences of up to 2^64 elements.',
    'Conformance is judged on the dumped prefix of a value (12 items per container); library types other than the containers are not shape-checked; every run has a size limit (running out of memory with no limit configured is not counted).',
    'bounded-exhaustive enumeration of programs with an execution oracle (no crash + value shape = static type)')

NA = {
}

ALL = ['C%02d' % i for i in range(1, 21)]


def main():
    hooks_commits = subprocess.run(['git', '-C', '/repo', 'log', '--format=%H', '--grep=^verif hooks'],
                                   capture_output=True, text=True).stdout.split()
    checks = []
    for pid in ALL:
        if pid not in CHECKS:
            continue
        cat, ref, text, note, tech = CHECKS[pid]
        checks.append({
            'property_id': pid,
            'quick_cmd': './check %s quick' % pid,
            'thorough_cmd': './check %s thorough' % pid,
            'evidence_file': '/verif/evidence/%s.json' % pid,
            'replay_cmd_template': './check replay {path}',
            'engine': 'mc',
            'level_claimed': {'category': cat, 'text': text, 'design_ref': ref},
            'level_note': note,
            'technique': tech,
        })
    na = []
    for pid in ALL:
        if pid not in CHECKS:
            na.append({'property_id': pid, 'reason': NA.get(pid, 'check not built yet in this revision (planned in DESIGN.md §5); not claimed')})
    m = {
        'version': 1,
        'setup_cmd': 'cd /verif/runner && CARGO_NET_OFFLINE=true cargo build --release --offline',
        'hooks': {
            'guard': 'cargo feature "verif" of the xray crate',
            'enable': 'the runner crate /verif/runner depends on xray = { path = "/repo", features = ["verif"] }; ./check rebuilds it from /repo\'s working tree on every invocation',
            'baseline_off_cmd': 'cd /repo && cargo test --workspace --no-fail-fast --offline',
            'source_commits': hooks_commits,
            'add_only': True,
        },
        'engines': [{'name': 'mc', 'path': '/verif/mc', 'serves_properties': sorted(CHECKS),
                     'kind_free_text': 'Python explorer (bounded-exhaustive enumeration, BFS over operation histories, limit sweeps) driving the real interpreter through the JSON-lines runner /verif/runner, in lock-step with reference models'}],
        'checks': checks,
        'not_applicable': na,
        'notes': 'exit 0 held / 1 violation / 2 machinery error; known findings in /verif/known_findings.json',
    }
    with open(os.path.join(V, 'MANIFEST.json'), 'w') as f:
        json.dump(m, f, indent=1)
    print('wrote MANIFEST.json: %d checks, %d not claimed' % (len(checks), len(na)))


if __name__ == '__main__':
    main()
