"""C06 — errors propagate as values; violations cannot be caught.
Part A (E1): an error value injected at every argument position (one, and pairs) of every static library overload, of user
functions / lambdas / partials, and of every construction and collection insertion: the result must be that (leftmost) error.
Part B (E3): every catcher context x every violation source x every limit value at which the source trips: the host must
receive exactly that violation."""
import itertools
from ..core import (Report, xint, xstr, Err, Viol, Panic, Fatal, CErr, HostErr, Failure, run_units, pmap, chunks, mk_unit_job, walk, Seq)
from .. import stdlib
from ..stdlib import Pools, instantiate, arities, call_src, INT, STR

PROP = 'C06'

# documented handlers and short-circuit functions (their error behaviour is specified per position below, not by the rule)
SPECIAL = {'is_error', 'if_error', 'get_error', 'error', 'if', 'and', 'or', 'then', 'map_or', 'debug', 'display', 'assert', 'cast',
           'partial', 'indicator', 'value', 'has_value', 'get', 'sleep'}
SKIP_PARAM_TYPES = ('Regex', 'Match')

PRELUDE = ('struct P(a: int, b: str)\nunion V(i: int, s: str)\nfn uf1(x: int)->int{ let d = display("BODY-RAN"); x + 1 }\n'
           'fn uf2(x: int, y: str)->int{ let d = display("BODY-RAN"); x + 1 }\nfn ug<T>(x: T, y: T)->T{ let d = display("BODY-RAN"); x }\n'
           'fn uf3(x: int, y: int ?= 5)->int{ let d = display("BODY-RAN"); x + 1 }\n'
           'fn ids(s: Sequence<int>)->Sequence<int>{ s }\nfn inc(x: int)->int{ x + 1 }\n'
           'fn down(n: int)->int{ if(n == 0, 0, 1 + down(n - 1)) }\nfn loop(n: int, a: int)->int{ if(n == 0, a, loop(n - 1, a + 1)) }\n'
           'fn tw2(n: int, a: int)->int{ if(n == 0, 0, tw2(n - 1, if(n == 1, error("E1"), a + n))) }\n'
           'fn tw3(n: int, a: int, b: int)->int{ if(n == 0, 0, tw3(n - 1, if(n == 1, error("E1"), a + n), if(n == 1, error("E2"), b))) }\n'
           'fn tand(n: int, a: bool)->bool{ n == 0 || tand(n - 1, if(n == 1, error("E1"), a)) }\n'
           'fn tdef(n: int, a: int ?= 0)->int{ if(n == 0, 0, tdef(n - 1, if(n == 1, error("E1"), a + n))) }\n'
           'fn tlam(m: int)->int{ fn f(n: int, a: int)->int{ if(n == 0, m - m, f(n - 1, if(n == 1, error("E1"), a + n))) } f(m, 0) }\n'
           'fn twf(a: int, n: int)->int{ if(n == 0, 0, twf(if(n == 1, error("E0"), a + n), n - 1)) }\n'
           'fn ef(m: str)->float{ error(m) }\nfn es_(m: str)->str{ error(m) }\nfn ei_(m: str)->int{ error(m) }\nfn et(m: str)->(int, str){ error(m) }\n'
           'fn eq_(m: str)->Sequence<int>{ error(m) }\nfn eo(m: str)->Optional<int>{ error(m) }\n'
           'fn ge(k: int)->(int)->(bool){ (x: int)->{ x >= k } }\nfn fact(n: int)->int{ if(n <= 1, 1, n * fact(n - 1)) }\n')


def E(i):
    return 'error("E%d")' % i


def inject_cases(tier, sigs):
    out = []
    seen = set()
    pools = Pools(size=2)
    big_pools = Pools(size=3)

    def add(kind, name, args, positions, output=None):
        src = call_src(name, args) if name else args
        if src in seen:
            return
        seen.add(src)
        out.append({'sig': 'C06|%s|%s' % (kind, src), 'src': src, 'exp': Err('E%d' % min(positions)), 'out': output})

    for sig in sigs:
        if sig['kind'] != 'static' or sig['name'].startswith('_') or sig['name'] in SPECIAL:
            continue
        for bind, ptypes, opts, ret in instantiate(sig, generic_choices=(INT,)):
            if any(stdlib.contains_type(p, t) for p in ptypes for t in SKIP_PARAM_TYPES):
                continue
            if ptypes and ptypes[0][0] == 'app' and ptypes[0][1] == 'Optional' and len(ptypes) >= 2:
                continue   # the Optional combinators are documented short-circuit functions (covered by the per-position table)
            for ar in arities(opts):
                if ar == 0:
                    continue
                pts = ptypes[:ar]
                base = [pools.first(p) for p in pts]
                if any(b is None for b in base):
                    continue
                bases = [base]
                if tier != 'quick':
                    # a second and third set of well-formed companions for the error argument
                    for k in (1, 2):
                        alt = [(big_pools.get(p, 3) + [b])[min(k, len(big_pools.get(p, 3)) - 1)] if big_pools.get(p, 3) else b for p, b in zip(pts, base)]
                        if alt not in bases:
                            bases.append(alt)
                subsets = [(i,) for i in range(ar)]
                if tier != 'quick' or ar <= 2:
                    subsets += list(itertools.combinations(range(ar), 2))
                    if tier != 'quick' and ar >= 3:
                        subsets += list(itertools.combinations(range(ar), 3))
                for base_ in bases:
                    for sub in subsets:
                        args = list(base_)
                        for i in sub:
                            args[i] = E(i)
                        if sig['name'] == 'set_default' and 2 in sub and 0 not in sub and 1 not in sub:
                            continue   # the shipped suite pins set_default as skipping its value when the key is present (script 351)
                        add('native', sig['name'], args, sub)
    # an error argument together with an argument that makes the callee fail on its own (out-of-range index, zero divisor, empty
    # receiver, ...): the received error is still the result
    alt_pools = Pools(ints=[0, 7, -4, 1 << 64], strs=['', 'ab'], floats=[0.0, -1.5], size=4)
    for sig in sigs:
        if sig['kind'] != 'static' or sig['name'].startswith('_') or sig['name'] in SPECIAL or sig['name'] == 'set_default':
            continue
        for bind, ptypes, opts, ret in instantiate(sig, generic_choices=(INT,)):
            if any(stdlib.contains_type(p, t) for p in ptypes for t in SKIP_PARAM_TYPES):
                continue
            if ptypes and ptypes[0][0] == 'app' and ptypes[0][1] == 'Optional' and len(ptypes) >= 2:
                continue
            for ar in arities(opts):
                if ar < 2:
                    continue
                pts = ptypes[:ar]
                base = [pools.first(p) for p in pts]
                if any(b is None for b in base):
                    continue
                for i in range(ar):
                    for j in range(ar):
                        if j == i or pts[j][0] == 'fn':
                            continue
                        alts = alt_pools.get(pts[j]) if tier != 'quick' else alt_pools.get(pts[j])[:3]
                        for alt in alts:
                            if alt == base[j]:
                                continue
                            args = list(base)
                            args[i] = E(i)
                            args[j] = alt
                            add('native-with-failing-arg', sig['name'], args, (i,))
    # user-defined callees: the body must not run
    for sub in ((0,),):
        add('user-fn', 'uf1', [E(0)], (0,), output='')
    for sub in ((0,), (1,), (0, 1)):
        args = ['1', '"s"']
        for i in sub:
            args[i] = E(i)
        add('user-fn', 'uf2', args, sub, output='')
        args = ['1', '2']
        for i in sub:
            args[i] = E(i)
        add('user-generic-fn', 'ug', args, sub, output='')
        add('user-fn-default', 'uf3', args, sub, output='')
    add('user-fn-default', 'uf3', [E(0)], (0,), output='')
    out.append({'sig': 'C06|lambda|call', 'src': '((x: int, y: int)->{ let d = display("BODY-RAN"); x + 1 })(1, %s)' % E(1), 'exp': Err('E1'), 'out': ''})
    out.append({'sig': 'C06|fn-value|call', 'src': 'let f = uf2; f(%s, "s")' % E(0), 'exp': Err('E0'), 'out': ''})
    out.append({'sig': 'C06|partial|call', 'src': 'let f = partial(uf2, 1); f(%s)' % E(1), 'exp': Err('E1'), 'out': ''})
    out.append({'sig': 'C06|partial|bound-error', 'src': 'let f = partial(uf2, %s); f("s")' % E(0), 'exp': Err('E0'), 'out': ''})
    out.append({'sig': 'C06|map-callback|arg', 'src': '[1, 2].map(uf1).to_array().len() + uf1(%s)' % E(0), 'exp': Err('E0'), 'out': 'BODY-RAN\nBODY-RAN\n'})
    # self tail calls re-enter the body without a call: an error argument of the tail call is still the result, also when the next
    # activation never reads that parameter
    tail_prelude_fns = [('tw2', 2), ('tw3', 3)]
    for n in (0, 1, 2, 3):
        for pos in (1,):
            out.append({'sig': 'C06|tail-call|tw2|n=%d' % n, 'src': 'tw2(%d, 0)' % n, 'exp': Err('E1') if n >= 1 else 0, 'out': None})
        out.append({'sig': 'C06|tail-call|tw3-a|n=%d' % n, 'src': 'tw3(%d, 0, 0)' % n, 'exp': Err('E1') if n >= 1 else 0, 'out': None})
        out.append({'sig': 'C06|tail-call|tand|n=%d' % n, 'src': 'tand(%d, true)' % n, 'exp': Err('E1') if n >= 1 else True, 'out': None})
        out.append({'sig': 'C06|tail-call|tdef|n=%d' % n, 'src': 'tdef(%d)' % n, 'exp': Err('E1') if n >= 1 else 0, 'out': None})
        out.append({'sig': 'C06|tail-call|tlam|n=%d' % n, 'src': 'tlam(%d)' % n, 'exp': Err('E1') if n >= 1 else 0, 'out': None})
        out.append({'sig': 'C06|tail-call|tw-first|n=%d' % n, 'src': 'twf(0, %d)' % n, 'exp': Err('E0') if n >= 1 else 0, 'out': None})
    # derived (dynamic) comparison and equality functions: the leftmost error, for one and for two erroring operands, on every kind of operand
    typed = {'float': ('ef', '1.5'), 'str': ('es_', '"a"'), 'int': ('ei_', '1'), '(int, str)': ('et', '(1, "a")'), 'Sequence<int>': ('eq_', '[1]'), 'Optional<int>': ('eo', 'some(1)')}
    for tname, (ef, good) in typed.items():
        for op in ('lt', 'le', 'gt', 'ge', 'eq', 'ne', 'cmp', 'min', 'max'):
            if op in ('min', 'max') and tname == 'Optional<int>':
                continue
            for sub in ((0,), (1,), (0, 1)):
                args = [good, good]
                for i in sub:
                    args[i] = '%s("E%d")' % (ef, i)
                out.append({'sig': 'C06|derived|%s|%s|%s' % (op, tname, ','.join(map(str, sub))), 'src': '%s(%s, %s)' % (op, args[0], args[1]), 'exp': Err('E%d' % min(sub)), 'out': None})
        for sym in ('<', '<=', '>', '>=', '==', '!='):
            out.append({'sig': 'C06|derived-operator|%s|%s' % (sym, tname), 'src': '(%s("E0")) %s (%s("E1"))' % (ef, sym, ef), 'exp': Err('E0'), 'out': None})
    # constructions and insertions: collections never contain errors
    ctor = [
        ('array', '[1, %s, 3]', 1), ('array-first', '[%s, 2]', 0), ('array-two', '[%s, %s]', (0, 1)),
        ('tuple', '(1, %s)', 1), ('tuple-first', '(%s, "a")', 0), ('struct', 'P(%s, "a")', 0), ('struct-2', 'P(1, %s)', 1), ('struct-both', 'P(%s, %s)', (0, 1)),
        ('union', 'V::i(%s)', 0), ('some', 'some(%s)', 0), ('push', '[1].push(%s)', 1), ('rpush', '[1].rpush(%s)', 1),
        ('insert', '[1].insert(0, %s)', 2), ('insert-idx', '[1].insert(%s, 5)', 1), ('set', '[1].set(0, %s)', 2), ('seq-add', '[1] + %s', 1),
        ('stack-push', 'stack().push(1).push(%s)', 1), ('set-add', 'set<int>().add(%s)', 1), ('set-update', 'set<int>().update([1, %s])', 1),
        ('mapping-set-value', 'mapping<int>().set(1, %s)', 2), ('mapping-set-key', 'mapping<int>().set(%s, 1)', 1),
        ('mapping-set_default', 'mapping<int>().set_default(1, %s)', 2), ('mapping-update', 'mapping<int>().update([(1, %s)])', 1),
        ('mapping-update_from_keys', 'mapping<int>().set(1, 1).update_from_keys([1, 2], (k: int)->{ %s }, (k: int, v: int)->{ v })', 2),
        ('fstring', 'f"a{%s}b"', 0), ('to_array-of-erroring-map', '[1, 2].map((x: int)->{ if(x == 2, %s, x) }).to_array()', 0),
        ('generator-to_array', '[1, 2].to_generator().map((x: int)->{ if(x == 2, %s, x) }).to_array()', 0),
        ('zip', '[1].zip(%s)', 1), ('json-array', 'json([json(1), %s])', 1), ('optional-map', 'some(1).map((x: int)->{ %s })', 0),
    ]
    for name, tpl, pos in ctor:
        if isinstance(pos, tuple):
            src = tpl % tuple(E(p) for p in pos)
            mn = min(pos)
        else:
            src = tpl % E(pos)
            mn = pos
        out.append({'sig': 'C06|construct|%s' % name, 'src': src, 'exp': Err('E%d' % mn), 'out': None})
    # documented handlers and short-circuits (book: functions.md / errors.md)
    spec = [
        ('is_error', 'is_error(%s)' % E(0), True), ('is_error-value', 'is_error(5)', False),
        ('if_error', 'if_error(%s, 7)' % E(0), 7), ('if_error-value', 'if_error(5, %s)' % E(1), 5), ('if_error-both', 'if_error(%s, %s)' % (E(0), E(1)), Err('E1')),
        ('if_error3-match', 'if_error(error("teapot"), "tea", 7)', 7), ('if_error3-nomatch', 'if_error(error("toaster"), "tea", 7)', Err('toaster')),
        ('if_error3-value', 'if_error(5, "tea", %s)' % E(2), 5),
        ('get_error', 'get_error(%s)' % E(0), ('SOME', 'E0')), ('get_error-value', 'get_error(5).has_value()', False),
        ('if-cond', 'if(%s, 1, 2)' % E(0), Err('E0')), ('if-unselected', 'if(true, 1, %s)' % E(2), 1), ('if-selected', 'if(false, 1, %s)' % E(2), Err('E2')),
        ('and-shortcircuit', 'false && %s' % E(1), False), ('and-evaluated', 'true && %s' % E(1), Err('E1')), ('and-first', '%s && true' % E(0), Err('E0')),
        ('or-shortcircuit', 'true || %s' % E(1), True), ('or-evaluated', 'false || %s' % E(1), Err('E1')),
        ('then-false', 'false.then(%s).has_value()' % E(1), False), ('then-true', 'true.then(%s)' % E(1), Err('E1')),
        ('optional-or-some', '(some(1) || %s).value()' % E(1), 1), ('optional-or-none', 'none() || %s' % E(1), Err('E1')),
        ('map_or-none', 'none().map_or(inc, 7)', 7), ('map_or-some-default-error', 'some(1).map_or(inc, %s)' % E(2), 2),
        ('mapping-get-default-present', 'mapping<int>().set(1, 5).get(1, %s)' % E(2), 5), ('mapping-get-default-absent', 'mapping<int>().set(1, 5).get(2, %s)' % E(2), Err('E2')),
        ('display-error', 'display(%s)' % E(0), Err('E0')), ('debug-error', 'debug(%s)' % E(0), Err('E0')),
    ]
    for name, src, exp in spec:
        out.append({'sig': 'C06|documented|%s' % name, 'src': src, 'exp': exp, 'out': None})
    return out


def _inject_chunk(cs):
    units = [('c%d' % i, 'let c%d = ()->{ %s };' % (i, c['src'])) for i, c in enumerate(cs)]
    outs = run_units(units, prelude=[PRELUDE], dump={'max_items': 16}, limits={'search': 2000}, perms={'regex': True, 'sleep': True}, timeout=15.0)
    res = []
    for c, o in zip(cs, outs):
        v = o.v
        exp = c['exp']
        why = None
        if isinstance(v, CErr):
            res.append(('rejected', None)); continue
        if isinstance(v, (Panic, Fatal, HostErr)):
            why = 'panic@' + v.loc if isinstance(v, Panic) else type(v).__name__
        elif isinstance(v, Viol):
            why = 'violation:' + v.kind
        elif isinstance(exp, Err):
            if not isinstance(v, Err):
                bad = [n for n in walk(v) if isinstance(n, Err)]
                why = 'error-inside-collection' if bad else 'error-dropped'
            elif v.msg != exp.msg:
                why = 'wrong-error:%s' % (v.msg if v.msg.startswith('E') and len(v.msg) <= 3 else 'other')
        elif isinstance(exp, tuple) and exp and exp[0] == 'SOME':
            from ..core import Opt
            if not (isinstance(v, Opt) and v.has and v.v == exp[1]):
                why = 'wrong-value'
        else:
            from ..core import veq
            if not veq(v, exp):
                why = 'wrong-value'
        if why is None and c.get('out') is not None and o.out != c['out']:
            why = 'body-ran' if 'BODY-RAN' in o.out else 'wrong-output'
        res.append(('error' if isinstance(v, Err) else 'value', (why, repr(v), o.out) if why else None))
    return res


# ----------------------------------------------------------------------------- part B
# violation sources: name, int-typed expression, limit kind, need (trips for every L in 1..need), extra limits
SOURCES = [
    ('depth', 'down(4)', 'depth', 5),
    ('calls', 'down(4)', 'calls', 5),
    ('recursion', 'loop(6, 0)', 'recursion', 5),
    ('search-nth', 'count().nth(0, ge(6)).value()', 'search', 6),
    ('search-generator', 'range(8).to_generator().map(inc).len()', 'search', 7),
    ('permission', 'display(41)', 'perm', 1),
    ('allocation', '(2 ** 6000).sign()', 'size', 4),
]
SIZE_DELTAS = {1: 8, 2: 96, 3: 300, 4: 640}
CATCHERS = [
    ('bare', 'V'),
    ('if_error', 'if_error(V, 0)'),
    ('if_error3', 'if_error(V, "", 0)'),
    ('is_error', 'is_error(V)'),
    ('get_error', 'get_error(V)'),
    ('nested-catchers', 'if_error(if_error(V, error("x")), 0)'),
    ('is_error-twice', 'is_error(is_error(V))'),
    ('optional-or', '(some(1).map((x: int)->{ V }) || some(0)).value()'),
    ('then', 'if_error(true.then(V).value(), 0)'),
    ('and', 'if_error(true && (V == 0), false)'),
    ('if-branch', 'if_error(if(true, V, 0), 0)'),
    ('map-forced', 'if_error([1, 2].map((x: int)->{ V }).to_array().len(), 0)'),
    ('map-get', 'if_error([1, 2].map((x: int)->{ V })[1], 0)'),
    ('filter', 'if_error([1, 2].to_generator().filter((x: int)->{ V >= 0 }).to_array().len(), 0)'),
    ('gen-map', 'if_error([1, 2].to_generator().map((x: int)->{ V }).to_array().len(), 0)'),
    ('take_while', 'if_error([1, 2].to_generator().take_while((x: int)->{ V >= 0 }).to_array().len(), 0)'),
    ('skip_until', 'if_error([1, 2].to_generator().skip_until((x: int)->{ V >= 0 }).to_array().len(), 0)'),
    ('aggregate', 'if_error([1, 2].to_generator().aggregate((a: int, b: int)->{ V }).to_array().len(), 0)'),
    ('group', 'if_error([1, 2].to_generator().group((a: int, b: int)->{ V >= 0 }).to_array().len(), 0)'),
    ('reduce', 'if_error([1, 2].reduce((a: int, b: int)->{ V }), 0)'),
    ('sort-comparator', 'if_error([2, 1].sort((a: int, b: int)->{ V }).len(), 0)'),
    ('seq-nth-predicate', 'if_error([1, 2].nth(0, (x: int)->{ V >= 0 }).value(), 0)'),
    ('mapping-hash', 'if_error(mapping((k: int)->{ V }, (a: int, b: int)->{ a == b }).set(1, 1).len(), 0)'),
    ('set-eq', 'if_error(set((k: int)->{ 0 }, (a: int, b: int)->{ V >= 0 }).add(1).add(2).len(), 0)'),
    ('update_from_keys', 'if_error(mapping<int>().update_from_keys([1], (k: int)->{ V }, (k: int, v: int)->{ v }).len(), 0)'),
    ('default-parameter', 'if_error((()->{ let f = (x: int ?= V)->{ x }; f() })(), 0)'),
    ('fstring', 'if_error(f"{V}", "")'),
    ('debug', 'if_error(debug(V), 0)'),
    ('successors', 'if_error(successors_until(1, (x: int)->{ if(V >= 0 && x < 3, some(x + 1), none()) }).to_array().len(), 0)'),
    ('distinct-windows', 'if_error([1, 2, 3].to_generator().map((x: int)->{ V }).windows(2).to_array().len(), 0)'),
    ('flatten', 'if_error([[1].to_generator().map((x: int)->{ V })].flatten().to_array().len(), 0)'),
    ('product', 'if_error([1].to_generator().map((x: int)->{ V }).product([1].to_generator()).to_array().len(), 0)'),
    ('zip', 'if_error([1].to_generator().map((x: int)->{ V }).zip([1].to_generator()).to_array().len(), 0)'),
    ('chain', 'if_error(([1].to_generator().map((x: int)->{ V }) + [1].to_generator()).to_array().len(), 0)'),
    ('repeat', 'if_error([1].to_generator().map((x: int)->{ V }).repeat(2).to_array().len(), 0)'),
    ('with_count', 'if_error([1, 1].to_generator().map((x: int)->{ V }).with_count().to_array().len(), 0)'),
    ('chunks', 'if_error([1, 2].to_generator().map((x: int)->{ V }).chunks(2).to_array().len(), 0)'),
    ('enumerate-join', 'if_error([1, 2].to_generator().map((x: int)->{ to_str(V) }).join(","), "")'),
    ('gen-last', 'if_error([1, 2].to_generator().map((x: int)->{ V }).last(), 0)'),
    ('gen-reduce', 'if_error([1, 2].to_generator().map((x: int)->{ V }).reduce((a: int, b: int)->{ a }), 0)'),
    ('gen-contains', 'if_error([1, 2].to_generator().map((x: int)->{ V }).contains(99), false)'),
    ('seq-eq', 'if_error([1, 2].map((x: int)->{ V }) == [1, 2], false)'),
    ('seq-sum-max', 'if_error([1, 2].map((x: int)->{ V }).max(), 0)'),
]
VIOL_KIND = {'size': 'AllocationLimitReached', 'depth': 'MaximumStackDepth', 'calls': 'MaximumUDCall', 'recursion': 'MaximumRecursion', 'search': 'MaximumSearch', 'perm': 'PermissionError(print)'}


def _viol_job(args):
    sname, vexpr, kind, L = args
    units = [('c%d' % i, 'let c%d = ()->{ %s };' % (i, tpl.replace('V', '(%s)' % vexpr))) for i, (cn, tpl) in enumerate(CATCHERS)]
    limits = {} if kind == 'perm' else {kind: L}
    perms = {'print': False} if kind == 'perm' else None
    if kind == 'size':
        # the accounted level after instantiation of exactly this program, then a limit a few bytes above it
        from ..core import run_job
        probe = mk_unit_job([PRELUDE], units, {'size': 1 << 40}, None, {'max_items': 8})
        probe['steps'] = [st for st in probe['steps'] if 'op' not in st or st['op'] == 'inst']
        rp = run_job(probe, timeout=20.0)
        base = rp['replies'][-2]['c']['bytes']
        limits = {'size': base + SIZE_DELTAS[L]}
    res = []
    # the call counter is per runtime: one unit per job keeps the sources independent for the call limit
    if kind == 'calls':
        outs = []
        for u in units:
            outs += run_units([u], prelude=[PRELUDE], limits=limits, perms=perms, dump={'max_items': 8}, timeout=15.0)
    else:
        outs = run_units(units, prelude=[PRELUDE], limits=limits, perms=perms, dump={'max_items': 8}, timeout=15.0)
    for (cn, tpl), u, o in zip(CATCHERS, units, outs):
        v = o.v
        ok = isinstance(v, Viol) and v.kind == VIOL_KIND[kind]
        why = None
        if not ok:
            if isinstance(v, Panic): why = 'panic@' + v.loc
            elif isinstance(v, (Fatal, HostErr, CErr)): why = type(v).__name__ + (':' + v.cls if isinstance(v, CErr) else '')
            elif isinstance(v, Viol): why = 'wrong-violation:' + v.kind
            else: why = 'swallowed-violation'
        res.append((cn, why, repr(v), u[1]))
    return res


def run(tier):
    rep = Report(PROP, tier, 'fault_enumeration',
                 'part A: an error value at every argument position (singly; pairs for arity<=2 / thorough) of every static library overload '
                 '(generics bound to int), of user functions, lambdas, function values, partials, and of every construction / insertion: the '
                 'result is that leftmost error, user bodies do not run, collections never hold errors; documented handlers and short-circuit '
                 'functions follow their per-position rule. part B: every catcher context (%d) x every violation source (%d) x every limit '
                 'value at which the source trips: the host receives exactly that violation; non-trivial = distinct cases' % (len(CATCHERS), len(SOURCES)))
    sigs = stdlib.signatures()
    cs = inject_cases(tier, sigs)
    rep.bounds['injection_cases'] = len(cs)
    idx = 0
    for res in pmap(_inject_chunk, chunks(cs, 150)):
        for cls, fail in res:
            c = cs[idx]; idx += 1
            rep.evaluations += 1
            rep.outcome(cls)
            if cls != 'rejected':
                rep.nontrivial.add(c['src'])
            if fail:
                why, actual, out = fail
                rep.fail(Failure(PROP, '%s|%s' % (c['sig'], why), {'src': c['src']}, '%r%s' % (c['exp'], ' out=%r' % c['out'] if c.get('out') is not None else ''),
                                 actual + (' out=%r' % out if out else ''),
                                 mk_unit_job([PRELUDE], [('c0', 'let c0 = ()->{ %s };' % c['src'])], {'search': 2000}, None, {'max_items': 16})))
    work = []
    for sname, vexpr, kind, need in SOURCES:
        for L in range(1, need + 1):
            work.append((sname, vexpr, kind, L))
    rep.bounds['violation_runs'] = len(work) * len(CATCHERS)
    for (sname, vexpr, kind, L), res in zip(work, pmap(_viol_job, work)):
        for cn, why, actual, src in res:
            rep.evaluations += 1
            rep.nontrivial_count += 1
            rep.outcome('violation-delivered' if not why else 'violation-lost')
            if why:
                limits = {} if kind == 'perm' else ({kind: L} if kind != 'size' else {'size': 'baseline+%d' % SIZE_DELTAS[L]})
                rep.fail(Failure(PROP, 'C06|uncatchable|%s|%s|%s=%d|%s' % (cn, sname, kind, L, why), {'catcher': cn, 'source': vexpr, 'limits': limits},
                                 'Viol(%s)' % VIOL_KIND[kind], actual,
                                 mk_unit_job([PRELUDE], [('c0', src.replace('let c%d' % [c[0] for c in CATCHERS].index(cn), 'let c0', 1))], limits,
                                             {'print': False} if kind == 'perm' else None, {'max_items': 8})))
    rep.sample({'inject': cs[0]['src'], 'expected': repr(cs[0]['exp'])})
    rep.sample({'inject': cs[len(cs) // 2]['src'], 'expected': repr(cs[len(cs) // 2]['exp'])})
    rep.sample({'catcher': CATCHERS[10][1], 'source': SOURCES[2][1], 'limit': 'recursion=3', 'expected': 'Viol(MaximumRecursion)'})
    rep.assumptions = ['whether arguments to the right of an erroring argument are evaluated is unspecified and not observed',
                       'calls the compiler rejects (a pool value that does not type) are skipped and counted as rejected',
                       'sources are chosen so that they trip for every L in the swept range even when the catcher adds frames or calls']
    return rep.finish()


def replay(rec):
    from ..table import replay_table
    return replay_table(rec)
