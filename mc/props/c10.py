"""C10 — limits bound all work: no unbounded native loop.
E1 over pipelines (source x adaptors x consumer) and adversarial numeric arguments under finite search / call (/ size) limits,
executed under a watchdog: every case must come back (value, error or violation) within the budget.  Plus the elapsed-time
limit: with time_limit = 0 no user-function call begins."""
import itertools
from ..core import (Report, xint, Viol, Err, Panic, Fatal, CErr, HostErr, Failure, run_units, run_job, decode, pmap, chunks, mk_unit_job)

PROP = 'C10'
LIMITS = {'search': 50, 'calls': 200}
SIZE = 8 << 20
STEP_TIMEOUT = 5.0

PRELUDE = ('fn ids(s: Sequence<int>)->Sequence<int>{ s }\nfn inc(x: int)->int{ x + 1 }\nfn never(x: int)->bool{ false }\nfn always(x: int)->bool{ true }\n'
           'fn add2(a: int, b: int)->int{ a + b }\nfn sameb(a: int, b: int)->bool{ true }\nfn shout(x: int)->int{ display(x) }\n'
           'fn icmp(a: int, b: int)->int{ cmp(a, b) }\n')

GEN_SOURCES = [
    ('count', 'count().to_generator()'), ('count-step', 'count(1, 2).to_generator()'), ('repeat-1', '[1].to_generator().repeat()'),
    ('repeat-empty', 'ids([]).to_generator().repeat()'), ('successors', 'successors(1, inc)'), ('huge-range', 'range(1000000000000).to_generator()'),
    ('empty', 'ids([]).to_generator()'), ('seq-repeat', '[1, 2].repeat().to_generator()'),
]
GEN_ADAPTORS = [
    ('map', '@.map(inc)'), ('filter-never', '@.filter(never)'), ('filter-always', '@.filter(always)'), ('take3', '@.take(3)'), ('skip3', '@.skip(3)'),
    ('take_while-always', '@.take_while(always)'), ('skip_until-never', '@.skip_until(never)'), ('zip', '@.zip(count().to_generator()).map((p: (int, int))->{ p::item0 })'),
    ('chain-after', '@ + [1].to_generator()'), ('chain-before', '[1].to_generator() + @'), ('aggregate', '@.aggregate(add2)'),
    ('enumerate', '@.enumerate().map((p: (int, int))->{ p::item1 })'), ('windows2', '@.windows(2).map((w: Sequence<int>)->{ w[0] })'),
    ('chunks2', '@.chunks(2).map((w: Sequence<int>)->{ w[0] })'), ('group-all-equal', '@.group(sameb).map((w: Sequence<int>)->{ w[0] })'),
    ('distinct', '@.distinct()'), ('with_count', '@.with_count().map((p: (int, int))->{ p::item0 })'), ('repeat', '@.repeat()'), ('repeat3', '@.repeat(3)'),
    ('flatten', '[@, @].flatten()'), ('product', '@.product([1].to_generator()).map((p: (int, int))->{ p::item0 })'),
    # callbacks that are native functions take nothing from the call budget: only the search budget can bound what they drop
    ('native-filter-never', '@.map(to_str{int}).filter(is_upper{str}).map(len{str})'), ('native-skip_until-never', '@.map(to_str{int}).skip_until(is_upper{str}).map(len{str})'),
    ('skip-huge', '@.skip(300000000)'), ('skip-huge-take', '@.skip(300000000).take(2)'),
]
GEN_CONSUMERS = [
    ('take3-to_array', '@.take(3).to_array()'), ('get2', '@.get(2)'), ('nth-never', '@.nth(0, never)'), ('last', '@.last()'), ('len', '@.len()'),
    ('reduce', '@.reduce(add2)'), ('to_array', '@.to_array()'), ('contains', '@.contains(-1)'), ('sum', '@.sum()'), ('min', '@.min()'),
    ('join', '@.map((x: int)->{ to_str(x) }).join(",")'), ('set-update', 'set<int>().update(@).len()'), ('all', '@.all(always)'), ('count', '@.count(always)'),
    ('first-never', '@.first(never)'),
]
SEQ_SOURCES = [('count', 'count()'), ('repeat', '[1, 2].repeat()'), ('huge-range', 'range(1000000000000)'), ('count-map', 'count().map(inc)'),
               ('count-skip', 'count().skip(5)'), ('chain-inf', '[1] + count()')]
SEQ_CONSUMERS = [
    ('to_array', '@.to_array()'), ('len', '@.len()'), ('sum', '@.sum()'), ('reduce', '@.reduce(add2)'), ('contains', '@.contains(-1)'), ('eq', '@ == S'),
    ('cmp', 'cmp(@, @)'), ('hash', 'hash(@)'), ('to_str', 'to_str(@)'), ('sort', '@.sort(icmp)'), ('reverse', '@.reverse().take(1).to_array()'),
    ('to_stack', '@.to_stack()'), ('nth-never', '@.nth(0, never)'), ('last-never', '@.last(never)'), ('take_while-always', '@.take_while(always).len()'),
    ('skip_until-never', '@.skip_until(never).take(1).to_array()'), ('filter-to_array', '@.filter(never).to_array()'), ('any-never', '@.any(never)'),
    ('count-pred', '@.count(always)'), ('max', '@.max()'), ('push', '@.push(1)'), ('mul', '(@ * 2).take(1).to_array()'), ('zip-len', '@.zip(@).len()'),
    ('to_generator-len', '@.to_generator().len()'), ('median', '@.median()'), ('n_largest', '@.n_largest(2)'), ('binary_search', '@.binary_search((x: int)->{ -1 })'),
    ('bisect', '@.bisect(always)'), ('shuffle', '@.shuffle()'), ('sample', '@.sample(2)'), ('permutations', '@.take(12).permutations().len()'),
    ('combinations', '@.take(40).combinations(20).len()'), ('mapping-update', 'mapping<int>().update(@.map((x: int)->{ (x, x) }).to_generator()).len()'),
    ('native-filter', '@.map(to_str{int}).filter(is_upper{str}).take(1).to_array()'), ('native-skip_until', '@.map(to_str{int}).skip_until(is_upper{str}).take(1).to_array()'),
    ('native-nth', '@.map(to_str{int}).nth(0, is_upper{str})'), ('native-any', '@.map(to_str{int}).any(is_upper{str})'), ('native-first', '@.map(to_str{int}).first(is_upper{str})'),
    ('native-count', '@.map(to_str{int}).count(is_upper{str})'), ('skip-huge-get', '@.skip(300000000)[0]'), ('native-gen-count', '@.map(to_str{int}).to_generator().count(is_upper{str})'),
    ('native-gen-any', '@.map(to_str{int}).to_generator().any(is_upper{str})'), ('native-gen-nth', '@.map(to_str{int}).to_generator().nth(0, is_upper{str})'),
]
B70 = xint(1 << 70)
NUMERIC = [
    'digits(5, -2)', 'digits(5, -1)', 'digits(5, 0)', 'digits(5, 1)', 'digits(5, 2)', 'digits(%s, %s)' % (B70, B70), 'digits(-5, 10)', 'digits(-5, 2)',
    'binom(1000000, 500000)', 'binom(%s, 2)' % B70, 'binom(%s, %s)' % (B70, xint((1 << 70) - 2)), 'binom(1000000000000000000, 500000000000000000)', 'binom(-1, 0)', 'binom(5, -1)',
    'multinom([1000000, 1000000])', 'multinom([%s, 3])' % B70, 'multinom(range(100000))',
    'combination(1000000, 0, 500000)', 'combination(%s, 0, 3)' % xint(10 ** 18), 'permutation(1000000, 0)', 'permutation(%s, 5, 3)' % xint(10 ** 18),
    'combination_with_replacement(1000000, 0, 500000)',
    'pow(2, 1000000000)', '(10 ** (10 ** 6)).to_str().len()', '(10 ** (10 ** 6)).digits().len()', 'format(10 ** (10 ** 5), "x").len()', 'factorial(1000000)', 'factorial(100000, 3)',
    '("a" * 1000000000000).len()', '([0] * 1000000000000).len()', '([0] * 1000000000000)[5]', 'range(1000000000000).to_array().len()', 'format(1, "0>10000000000")',
    'format(1.5, "0>10000000000.3")', 'format("a", "*>10000000000")', 'range(40).combinations(20).len()', 'range(15).permutations().len()',
    'floor_root(1000000000000000000)', 'ceil_root(1000000000000000000, 3)', 'range(%s, %s).len()' % (xint(-(1 << 63)), xint((1 << 63) - 1)),
    'range(%s, %s).to_array().len()' % (xint(-(1 << 63)), xint((1 << 63) - 1)), 'range(0, %s, 1).last(always)' % xint((1 << 63) - 1),
    'gcd(%s, %s)' % (xint(3 ** 200), xint(2 ** 300 + 1)), 'lcm(%s, 7)' % xint(3 ** 200), '(2 ** 100000) % 7', 'to_int("1" * 100000).sign()' if False else '("1" * 100000).to_int().sign()',
    '"ab".repeat(3)' if False else '"abc" * 0', '"a,b".split(",", 1000000000000).to_array()', '"aaaa".replace("", "b")', '"aaaa".split("").take(3).to_array()',
    # whole-sequence builtins on infinite sequences that are built from infinite sequences: an error, never a native loop
    'count().zip(count()).to_array().len()', 'count(7).enumerate().to_array().len()', 'count().zip(count()).to_stack().len()', 'count().zip(count().map(inc)).sort((a: (int, int), b: (int, int))->{ 0 }).len()',
    'count().zip(count()).len()', 'count().map(inc).to_array().len()', 'count().skip(5).to_array().len()', '(count() + [1]).len()', 'count().repeat().to_array().len()', 'count().zip(count()).push((1, 1)).len()',
    'count().zip(count()).reverse().to_array().len()', 'count().enumerate().is_infinite()',
    'count().to_generator().windows(0).take(1).to_array()', 'count().to_generator().chunks(0).take(1).to_array()', 'range(10).to_generator().windows(1000000000000).to_array()',
    '[1, 2, 3].repeat(1000000000000).len()', '[1, 2, 3].to_generator().repeat(1000000000000).len()', 'chr(1114111).len()', 'json_deserialize("[" * 100000)',
    'json_deserialize("[" * 2000 + "]" * 2000).serialize().len()', 'sleep(seconds(0.0))',
    # counts and precisions far beyond the data they apply to
    '[3, 1, 2].n_largest(1000000000000000000)', '[3, 1, 2].n_smallest(1000000000000000000)', 'range(10).n_largest(%s)' % xint((1 << 64) - 1), 'range(1000000000000000000).sample(30000000).len()',
    'range(1000000000000000000).sample(999999999999999999).len()', '1.5.format(".3000000000f")', '1.5.format(".70000f").len()', '1.5.format(".65535f").len()', '1.5.format(".65536e").len()', '1.5.format(".99999%").len()',
    '[1, 2, 3].to_generator().n_largest(1000000000000000000)' if False else '[1, 2, 3].take(1000000000000000000).len()', '[1, 2, 3].to_generator().take(1000000000000000000).len()',
    'permutation(300000000, 18446744073709551615, 300000000)',
    # buffers inside adaptors grow with what they see, not with what they return
    '[7].to_generator().repeat().windows(300000000).take(1).to_array()', '[7].to_generator().repeat().take(300000000).group().take(1).to_array()',
    '[7].to_generator().repeat().take(300000000).group((a: int, b: int)->{ true }).take(1).to_array().len()',
]
HANG_KNOWN = ['geometric_distribution(1.0).random()', 'negative_binomial_distribution(0.5, 1.0).sample(40)', 'students_t_distribution(0.5, 1000.0, 0.5).sample(40)',
              'hypergeometric_distribution(40000000000, 20000000000, 20000000000).cdf(3000000000)', 'binomial_distribution(999999999999, 0.5).sample(1)']


def cases(tier):
    out = []
    ad1 = [[a] for a in GEN_ADAPTORS]
    hot = [a for a in GEN_ADAPTORS if a[0] in ('chain-after', 'chain-before', 'repeat', 'repeat3', 'flatten', 'group-all-equal', 'windows2', 'product', 'filter-never', 'skip_until-never', 'native-filter-never', 'native-skip_until-never', 'skip-huge')]
    ad2 = [[a, b] for a in hot for b in GEN_ADAPTORS] if tier == 'quick' else [[a, b] for a in GEN_ADAPTORS for b in GEN_ADAPTORS]
    pipes = [[]] + ad1 + ad2
    if tier != 'quick':
        pipes += [[a, b, c] for a in hot for b in hot for c in hot]
    for sn, src in GEN_SOURCES:
        for pipe in pipes:
            e = src
            for an, tpl in pipe:
                e = tpl.replace('@', '(%s)' % e)
            for cn, ctpl in GEN_CONSUMERS:
                if tier == 'quick' and len(pipe) == 2 and cn not in ('take3-to_array', 'get2', 'len', 'last', 'nth-never'):
                    continue
                out.append({'sig': 'C10|gen|%s|%s|%s' % (sn, '+'.join(a[0] for a in pipe) or '-', cn), 'src': ctpl.replace('@', '(%s)' % e)})
    for sn, src in SEQ_SOURCES:
        for cn, ctpl in SEQ_CONSUMERS:
            out.append({'sig': 'C10|seq|%s|%s' % (sn, cn), 'src': ctpl.replace('@', '(%s)' % src)})
    for src in NUMERIC:
        out.append({'sig': 'C10|numeric|%s' % src[:70], 'src': src})
    for src in HANG_KNOWN:
        out.append({'sig': 'C10|distribution|%s' % src, 'src': src})
    return out


def _chunk(args):
    cs, limits = args
    units = [('c%d' % i, 'let c%d = ()->{ %s };' % (i, c['src'])) for i, c in enumerate(cs)]
    outs = run_units(units, prelude=[PRELUDE], limits=limits, perms={'sleep': True}, dump={'max_items': 4}, timeout=STEP_TIMEOUT, reset_calls=True)
    res = []
    for c, o in zip(cs, outs):
        v = o.v
        cls = ('fatal:' + v.kind) if isinstance(v, Fatal) else ('panic' if isinstance(v, Panic) else ('violation:' + v.kind if isinstance(v, Viol) else
              ('error' if isinstance(v, Err) else ('rejected' if isinstance(v, (CErr, HostErr)) else 'value'))))
        res.append((cls, repr(v)[:300]))
        if cls in ('rejected', 'panic') and __import__('os').environ.get('C10_DEBUG'):
            print(cls, c['src'], repr(v)[:200])
    return res


TIME_PROGRAMS = [
    ('no-user-call', 'let r = 1 + 2;', 'value'),
    ('native-only', 'let r = [3, 1, 2].sort().len();', 'value'),
    ('user-call', 'let r = inc(1);', 'Timeout'),
    ('user-call-in-map', 'let r = [1, 2].map(shout).to_array();', 'Timeout'),
    ('lambda-call', 'let r = ((x: int)->{ display(x) })(5);', 'Timeout'),
    ('library-fn-in-language', 'let r = gcd(12, 18);', 'Timeout'),
    ('lazy-not-forced', 'let r = [1, 2].map(shout).len();', 'value'),
    ('second-call-after-native', 'let a = 1 + 1; let r = shout(a);', 'Timeout'),
]


OTHER_LIMITS = [{}, {'calls': 10 ** 6}, {'depth': 50}, {'recursion': 50}, {'size': 10 ** 7}, {'search': 10 ** 4},
                {'calls': 10 ** 6, 'depth': 50, 'recursion': 50, 'size': 10 ** 7, 'search': 10 ** 4}]
AFTER_DEADLINE = [('named', 'shout(1)'), ('lambda', '((x: int)->{ display(x) })(5)'), ('callback', '[1, 2].map(shout).to_array().len()'),
                  ('library', 'gcd(12, 18)')]


def _time_job(args):
    name, src, exp, limits = args
    job = {'id': 0, 'limits': limits, 'perms': {'sleep': True}, 'steps': [{'feed': PRELUDE}, {'feed': src}, {'op': 'inst'}, {'op': 'get', 'name': 'r'}]}
    rep = run_job(job, timeout=20.0)
    if 'fatal' in rep:
        return (name, src, exp, 'fatal:' + rep['fatal'], '', job)
    rs = rep['replies']
    inst = decode(rs[2]['v'])
    out = rs[2]['c']['out'] + rs[3]['c']['out']
    got = ('Timeout' if isinstance(inst, Viol) and inst.kind == 'Timeout' else ('value' if inst is True and not isinstance(decode(rs[3]['v']), (Viol, Panic, HostErr)) else repr(inst)))
    return (name, src, exp, got, out, job)


def time_cases(tier):
    work = []
    # deadline already passed when evaluation starts, alone and together with every other limit
    for name, src, exp in TIME_PROGRAMS:
        for i, other in enumerate(OTHER_LIMITS):
            work.append(('%s|with-limits-%d' % (name, i), src, exp, dict(other, time0=True)))
    # deadline passes in the middle of the run (a sleep longer than the limit) after k user calls have been made: call k+1 never begins
    ks = range(0, 18) if tier != 'quick' else (0, 1, 2, 15, 16, 17)
    for k in ks:
        for an, after in AFTER_DEADLINE:
            for i, other in enumerate(OTHER_LIMITS if tier != 'quick' else OTHER_LIMITS[:2] + OTHER_LIMITS[-1:]):
                src = ''.join('let a%d = inc(%d); ' % (j, j) for j in range(k)) + 'let s = sleep(seconds(0.6)); let r = %s;' % after
                work.append(('after-%d-calls-then-%s|with-limits-%d' % (k, an, i), src, 'Timeout', dict(other, time_ms=300)))
    # the deadline passes inside a tail-recursive loop (each iteration sleeps): a tail call begins the function again
    for i, other in enumerate(OTHER_LIMITS if tier != 'quick' else OTHER_LIMITS[:2] + OTHER_LIMITS[-1:]):
        # (sleep is itself a library function written in the language: the iterations must be slow natively, ~5 ms each)
        src = 'fn spin(n: int, acc: int)->int{ if(n == 0, acc, spin(n - 1, acc + (3 ** 300000).sign())) } let r = spin(600, 0);'
        lim = dict(other, time_ms=300)
        if 'recursion' in lim:
            lim['recursion'] = 10 ** 6      # the loop has 600 iterations: the recursion limit must not end it first
        work.append(('deadline-inside-tail-loop|with-limits-%d' % i, src, 'Timeout', lim))
        src = 'fn spin(n: int, acc: int)->int{ if(n == 0, acc, 0 + spin(sleep(seconds(0.2), n - 1), acc + 1)) } let r = spin(6, 0);'
        work.append(('deadline-inside-plain-recursion|with-limits-%d' % i, src, 'Timeout', dict(other, time_ms=300)))
    # control: the same programs with a limit that does not elapse
    for an, after in AFTER_DEADLINE:
        src = 'let a0 = inc(0); let s = sleep(seconds(0.0)); let r = %s;' % after
        work.append(('control-%s' % an, src, 'value', {'time_ms': 60000}))
    return pmap(_time_job, work)


def run(tier):
    rep = Report(PROP, tier, 'exploration',
                 'every pipeline source x <=1 adaptor (quick; all pairs of the adaptors that iterate internally) / <=2 adaptors (thorough) x '
                 'consumer over infinite, huge and empty generators; every infinite / huge sequence x every consuming builtin; adversarial '
                 'numeric arguments; each under search=50, calls=200 with and without an 8 MiB size limit and a %.0f s per-case watchdog; '
                 'oracle: the case returns (value, error or violation) — a hang or a process abort is a violation; with time_limit=0 no '
                 'user-function call begins; non-trivial = distinct cases that reached evaluation' % STEP_TIMEOUT)
    cs = cases(tier)
    rep.bounds = {'cases': len(cs), 'limits': LIMITS, 'size_limit_variants': ['none (bounded-memory cases only)', SIZE], 'watchdog_s': STEP_TIMEOUT}
    MEM = ('300000000).', '9223372036854775807).to_array', '1000000000000', '10000000000', '10 ** (10 ** 6)', 'pow(2, 1000000000)', 'factorial(1000000)', '100000)', '[" * 100000', '100000, 3')
    for variant in ('size', 'nosize'):
        limits = dict(LIMITS)
        if variant == 'size':
            limits['size'] = SIZE
        sel = [c for c in cs if variant == 'size' or not any(m in c['src'] for m in MEM)]
        # cases known to hang run alone (in parallel with the rest) and only once
        slow = [c for c in sel if c['sig'].startswith('C10|distribution')]
        sel = [c for c in sel if not c['sig'].startswith('C10|distribution')]
        work = chunks(sel, 120)
        if variant == 'nosize':
            work = [[c] for c in slow] + work
            sel = slow + sel
        idx = 0
        for res in pmap(_chunk, [(c, limits) for c in work]):
            for cls, actual in res:
                c = sel[idx]; idx += 1
                rep.evaluations += 1
                rep.outcome(cls.split(':')[0] if not cls.startswith('violation') else cls)
                if cls != 'rejected':
                    rep.nontrivial.add(c['sig'])
                if cls.startswith('fatal'):
                    rep.fail(Failure(PROP, '%s|%s|%s' % (c['sig'], variant, cls), {'src': c['src'], 'limits': limits}, 'returns within %.0f s with a value, error or violation' % STEP_TIMEOUT,
                                     actual, mk_unit_job([PRELUDE], [('c0', 'let c0 = ()->{ %s };' % c['src'])], limits, {'sleep': True}, {'max_items': 4})))
    for name, src, exp, got, out, job in time_cases(tier):
        rep.evaluations += 1
        rep.nontrivial.add('time|' + name)
        if got != exp:
            rep.fail(Failure(PROP, 'C10|time-limit|%s|%s' % (name, 'user-call-began' if exp == 'Timeout' else 'spurious-timeout'), {'src': src, 'limits': job['limits']}, exp, got, job))
        elif exp == 'Timeout' and out:
            rep.fail(Failure(PROP, 'C10|time-limit|%s|function-body-ran' % name, {'src': src}, 'no output from any function body', out, job))
    rep.sample(cs[0]['src'])
    rep.sample(cs[len(cs) // 2]['src'])
    rep.sample(cs[-5]['src'])
    rep.assumptions = ['termination is claimed for the enumerated cases only (bounded pipelines), not in general',
                       'cases that legitimately need unbounded memory are run only with the size limit configured',
                       'wall-clock watchdog of %.0f s per case on a machine where every passing case takes well under 1 s' % STEP_TIMEOUT]
    return rep.finish()


def replay(rec):
    from ..table import replay_table
    return replay_table(rec)
