"""C15 — sequences behave as lists whatever their representation.  E2: BFS over sequence values (state key = model list +
representation path), every operation on every state, every observer on every edge (post-state and, again, pre-state)."""
from ..core import Report, Opt, Seq, Err, xint
from ..bfs import Domain, explore, ERR

PROP = 'C15'
MAXLEN = 9
INFP = 48   # modelled prefix of an infinite sequence


def idxs(n):
    return sorted(set([-n - 1, -n, -1, 0, 1, n - 1, n, n + 1]))


class Fin(tuple):
    """model of a finite sequence"""
    inf = False


class Inf(tuple):
    """model of an infinite sequence: its first INFP elements"""
    inf = True


def lit(l):
    return 'ids([%s])' % ', '.join(xint(x) for x in l)


class SeqDomain(Domain):
    prop = PROP
    name = 'sequence<int>'
    state_type = 'Sequence<int>'
    prelude = ('fn ids(s: Sequence<int>)->Sequence<int>{ s }\nfn inc(x: int)->int{ x + 1 }\nfn gt1(x: int)->bool{ x > 1 }\n'
               'fn lt2(x: int)->bool{ x < 2 }\nfn ge2(x: int)->bool{ x >= 2 }\nfn odd(x: int)->bool{ x % 2 == 1 }\n'
               'fn add2(a: int, b: int)->int{ a + b }\nfn icmp(a: int, b: int)->int{ cmp(a, b) }\n'
               'fn bad3(x: int)->int{ if(x == 3, error("three"), x) }\n')
    dump = {'max_items': 24, 'repr': True}
    limits = {'search': 5000}

    def __init__(self, tier):
        self.tier = tier

    def inits(self):
        B = 1 << 63
        out = [
            ('empty', 'ids([])', Fin(())),
            ('[7]', '[7]', Fin((7,))),
            ('[1,2,3]', '[1, 2, 3]', Fin((1, 2, 3))),
            ('[5,5,2]', '[5, 5, 2]', Fin((5, 5, 2))),
            ('range(3)', 'range(3)', Fin((0, 1, 2))),
            ('range(2,11,3)', 'range(2, 11, 3)', Fin((2, 5, 8))),
            ('range(5,-4,-2)', 'range(5, -4, -2)', Fin((5, 3, 1, -1, -3))),
            ('count()', 'count()', Inf(range(INFP))),
            ('range-bigstep', 'range(0, 10, %s)' % xint(B - 1), Fin((0,))),
            ('range-bigstep-neg', 'range(5, 0, %s)' % xint(-(B - 1)), Fin((5,))),
            # index * step leaves the 64-bit range while the element does not
            ('range-span', 'range(%s, %s, %s)' % (xint(-B), xint(B - 1), xint(B - 1)), Fin((-B, -1, B - 2))),
            ('range-span-quarter', 'range(%s, %s, %s)' % (xint(-B), xint(B - 1), xint(B // 2)), Fin((-B, -B // 2, 0, B // 2))),
        ]
        if self.tier != 'quick':
            out += [
                ('range-hi', 'range(%s, %s)' % (xint(B - 3), xint(B - 1)), Fin((B - 3, B - 2))),
                ('range-span-neg', 'range(%s, %s, %s)' % (xint(B - 1), xint(-B), xint(-(B - 1))), Fin((B - 1, 0, -(B - 1)))),
                ('range-lo', 'range(%s, %s)' % (xint(-B), xint(-B + 2)), Fin((-B, -B + 1))),
                ('count(3,2)', 'count(3, 2)', Inf(3 + 2 * i for i in range(INFP))),
                ('[1,2].repeat()', '[1, 2].repeat()', Inf((1, 2)[i % 2] for i in range(INFP))),
                ('range(0)', 'range(0)', Fin(())),
                ('range(3,3)', 'range(3, 3)', Fin(())),
                ('range(5,1)', 'range(5, 1)', Fin(())),
                ('range(1,5,-1)', 'range(1, 5, -1)', Fin(())),
            ]
        return out

    def key(self, m):
        return ('inf' if m.inf else 'fin') + repr(tuple(m[:12]) if m.inf else tuple(m))

    def fingerprint(self, m, dumped):
        return getattr(dumped, 'repr', None)

    def ops(self, m, others):
        out = []
        n = len(m)
        if m.inf:
            for k in (0, 1, 2):
                out.append(('take(%d)' % k, 'S.take(%d)' % k, Fin(m[:k])))
                out.append(('skip(%d)' % k, 'S.skip(%d)' % k, Inf(m[k:])))
            out.append(('push', 'S.push(9)', ERR))
            out.append(('rpush', 'S.rpush(9)', ERR))
            out.append(('insert(0)', 'S.insert(0, 9)', ERR))
            out.append(('pop(0)', 'S.pop(0)', ERR))
            out.append(('set(0)', 'S.set(0, 9)', ('MAYBE', Inf((9,) + tuple(m[1:])))))
            out.append(('map(inc)', 'S.map(inc)', Inf(x + 1 for x in m)))
            # all items of an infinite sequence, repeated: the first copy never ends
            out.append(('repeat(2)', 'S.repeat(2)', Inf(m)))
            out.append(('mul(3)', 'S * 3', Inf(m)))
            out.append(('repeat()', 'S.repeat()', Inf(m)))
            out.append(('to_array', 'S.to_array()', ERR))
            out.append(('reverse', 'S.reverse()', ERR))
            out.append(('sort', 'S.sort(icmp)', ERR))
            if self._tw_ends(m):   # otherwise the search is unbounded (ends in the search-limit violation)
                out.append(('take_while(lt2)', 'S.take_while(lt2)', Fin(self._tw(m))))
            for oexpr, om in others[:3]:
                if not om.inf:
                    out.append(('S+%s' % self.key(om), 'S + %s' % oexpr, ERR if len(om) else ('MAYBE', Inf(m))))
                    if len(om) + 0 <= MAXLEN:
                        out.append(('%s+S' % self.key(om), '%s + S' % oexpr, Inf(tuple(om) + tuple(m))[:INFP] and Inf((tuple(om) + tuple(m))[:INFP])))
            out.append(('!zip-fin', 'S.zip(ids([4, 5]))', ('TERMINAL', Seq([(m[0], 4), (m[1], 5)]))))
            out.append(('!enumerate', 'S.enumerate().take(2)', ('TERMINAL', Seq([(0, m[0]), (1, m[1])]))))
            return out
        l = list(m)
        for k in sorted(set([0, 1, 2, n - 1, n, n + 1])):
            if k < 0:
                continue
            out.append(('take(%d)' % k, 'S.take(%d)' % k, Fin(l[:k]) if k <= n else ('MAYBE', Fin(l))))
            out.append(('skip(%d)' % k, 'S.skip(%d)' % k, Fin(l[k:]) if k <= n else ('MAYBE', Fin(()))))
        if n + 1 <= MAXLEN:
            out.append(('push', 'S.push(9)', Fin(l + [9])))
            out.append(('rpush', 'S.rpush(9)', Fin([9] + l)))
        for i in idxs(n) + [1 << 64]:
            inr = -n <= i < n
            if n + 1 <= MAXLEN:
                if 0 <= i < n:
                    out.append(('insert(%d)' % i, 'S.insert(%s, 9)' % xint(i), Fin(l[:i] + [9] + l[i:])))
                elif -n <= i < 0:
                    out.append(('insert(%d)' % i, 'S.insert(%s, 9)' % xint(i), ('MAYBE', Fin(l[:i + n] + [9] + l[i + n:]))))
                elif i == n:
                    out.append(('insert(%d)' % i, 'S.insert(%s, 9)' % xint(i), ('MAYBE', Fin(l + [9]))))
                else:
                    out.append(('insert(%d)' % i, 'S.insert(%s, 9)' % xint(i), ERR))
            if inr:
                j = i % n
                out.append(('pop(%d)' % i, 'S.pop(%s)' % xint(i), Fin(l[:j] + l[j + 1:])))
                out.append(('set(%d)' % i, 'S.set(%s, 9)' % xint(i), Fin(l[:j] + [9] + l[j + 1:])))
            else:
                out.append(('pop(%d)' % i, 'S.pop(%s)' % xint(i), ERR))
                out.append(('set(%d)' % i, 'S.set(%s, 9)' % xint(i), ERR))
        for (i, j) in ((0, n - 1), (0, 0), (-1, 0), (0, n), (1, -2)):
            if -n <= i < n and -n <= j < n:
                t = list(l)
                t[i], t[j] = t[j], t[i]
                out.append(('swap(%d,%d)' % (i, j), 'S.swap(%s, %s)' % (xint(i), xint(j)), Fin(t)))
            else:
                out.append(('swap(%d,%d)' % (i, j), 'S.swap(%s, %s)' % (xint(i), xint(j)), ERR))
        for oexpr, om in others:
            if om.inf:
                out.append(('S+inf', 'S + %s' % oexpr, Inf((tuple(l) + tuple(om))[:INFP])))
            elif n + len(om) <= MAXLEN:
                out.append(('S+%s' % self.key(om), 'S + %s' % oexpr, Fin(l + list(om))))
                out.append(('%s+S' % self.key(om), '%s + S' % oexpr, Fin(list(om) + l)))
        out.append(('map(inc)', 'S.map(inc)', Fin(x + 1 for x in l)))
        out.append(('to_array', 'S.to_array()', Fin(l)))
        out.append(('reverse', 'S.reverse()', Fin(reversed(l))))
        if 2 * n <= MAXLEN:
            out.append(('repeat(2)', 'S.repeat(2)', Fin(l * 2)))
            out.append(('mul2', 'S * 2', Fin(l * 2)))
        out.append(('repeat(0)', 'S.repeat(0)', ('MAYBE', Fin(()))))
        out.append(('sort', 'S.sort(icmp)', Fin(sorted(l))))
        out.append(('sort_reverse', 'S.sort_reverse(icmp)', Fin(sorted(l, reverse=True))))
        out.append(('take_while(lt2)', 'S.take_while(lt2)', Fin(self._tw(l))))
        k = 0
        while k < n and not l[k] >= 2:
            k += 1
        out.append(('skip_until(ge2)', 'S.skip_until(ge2)', Fin(l[k:])))
        out.append(('filter(odd)', 'S.filter(odd).to_array()', Fin(x for x in l if x % 2 == 1)))
        out.append(('gen-roundtrip', 'S.to_generator().to_array()', Fin(l)))
        if n >= 1:
            out.append(('repeat()', 'S.repeat()', Inf((l * INFP)[:INFP])))
        else:
            out.append(('repeat()', 'S.repeat()', ('MAYBE', Fin(()))))
        # terminal observations (element type changes)
        out.append(('!zip', 'S.zip(ids([4, 5, 6]))', ('TERMINAL', Seq(list(zip(l, [4, 5, 6]))))))
        out.append(('!zip-inf', 'S.zip(count())', ('TERMINAL', Seq(list(zip(l, range(len(l))))))))
        out.append(('!enumerate', 'S.enumerate()', ('TERMINAL', Seq(list(enumerate(l))))))
        out.append(('!enumerate(1,2)', 'S.enumerate(1, 2)', ('TERMINAL', Seq([(1 + 2 * i, x) for i, x in enumerate(l)]))))
        out.append(('!unzip', 'S.zip(S.map(inc)).unzip()', ('TERMINAL', (Seq(l), Seq([x + 1 for x in l])))))
        out.append(('!to_stack', 'S.to_stack().to_array()', ('TERMINAL', Seq(l))))
        if 3 in l:
            out.append(('!map(bad3)-forced', 'is_error(S.map(bad3).to_array())', ('TERMINAL', True)))
            out.append(('!map(bad3)-lazy', 'S.map(bad3).len()', ('TERMINAL', n)))
        return out

    @staticmethod
    def _tw(l):
        out = []
        for x in l:
            if not x < 2:
                break
            out.append(x)
        return out

    @staticmethod
    def _tw_ends(l):
        return any(not x < 2 for x in l)

    def observers(self, m):
        if isinstance(m, tuple) and len(m) == 2 and m[0] == 'TERMINAL':
            return [('value', 'S', m[1], None)]
        obs = []
        if m.inf:
            obs.append(('len', 'S.len()', ERR, None))
            obs.append(('is_infinite', 'S.is_infinite()', True, None))
            for i in (0, 1, 5, 17):
                obs.append(('get(%d)' % i, 'S[%d]' % i, m[i], None))
            obs.append(('get(-1)', 'S[-1]', ERR, None))
            obs.append(('prefix', 'S.take(12).to_array()', Seq(list(m[:12])), None))
            obs.append(('self', 'S', Seq(list(m[:24]), None, True), None))
            tgt = m[3]
            obs.append(('first', 'S.first((x: int)->{ x == %s })' % xint(tgt), Opt(tgt, True), None))
            return obs
        l = list(m)
        n = len(l)
        L = lit(l)
        obs.append(('len', 'S.len()', n, None))
        obs.append(('is_infinite', 'S.is_infinite()', False, None))
        for i in idxs(n) + [1 << 64]:
            obs.append(('get(%d)' % i, 'S[%s]' % xint(i), l[i] if -n <= i < n else ERR, None))
        obs.append(('self', 'S', Seq(l), None))
        obs.append(('to_array', 'S.to_array()', Seq(l), None))
        obs.append(('eq-lit', '(S == %s, %s == S)' % (L, L), (True, True), None))
        obs.append(('ne-lit', 'S == %s' % lit(l + [0]), False, None))
        obs.append(('cmp-lit', '(cmp(S, %s), cmp(S, %s), cmp(%s, S))' % (L, lit(l + [0]), lit(l + [0])), (0, -1, 1), None))
        obs.append(('hash-lit', 'hash(S) == hash(%s)' % L, True, None))
        obs.append(('to_str-lit', 'to_str(S) == to_str(%s)' % L, True, None))
        g = [x for x in l if x > 1]
        obs.append(('first', 'S.first(gt1)', Opt(g[0], True) if g else Opt(None, False), None))
        obs.append(('last', 'S.last(gt1)', Opt(g[-1], True) if g else Opt(None, False), None))
        obs.append(('nth(1)', 'S.nth(1, gt1)', Opt(g[1], True) if len(g) > 1 else Opt(None, False), None))
        obs.append(('nth(-1)', 'S.nth(-1, gt1)', Opt(g[-1], True) if g else Opt(None, False), None))
        obs.append(('any', 'S.any(gt1)', any(x > 1 for x in l), None))
        obs.append(('all', 'S.all(gt1)', all(x > 1 for x in l), None))
        obs.append(('count', 'S.count(gt1)', len(g), None))
        obs.append(('contains', '(S.contains(2), S.contains(9), S.contains(-77))', (2 in l, 9 in l, -77 in l), None))
        obs.append(('reduce', 'S.reduce(0, add2)', sum(l), None))
        obs.append(('reduce1', 'S.reduce(add2)', sum(l) if l else ERR, None))
        obs.append(('max', 'S.max()', max(l) if l else ERR, None))
        obs.append(('min', 'S.min()', min(l) if l else ERR, None))
        if l == sorted(l):
            obs.append(('bisect', 'S.bisect(lt2)', len([x for x in l if x < 2]), None))
            for t in (l[0] if l else 0, 2, 100):
                obs.append(('binary_search(%d)' % t, 'S.binary_search((x: int)->{ cmp(x, %s) })' % xint(t), ('PRED', _BS(tuple(l), t)), None))
        return obs


class _BS:
    """binary_search returns some index holding the target, or none"""
    def __init__(self, l, t):
        self.l, self.t = l, t
        self.__name__ = 'binary_search(%r, %r)' % (l, t)

    def __call__(self, v):
        if not isinstance(v, Opt):
            return False
        if self.t in self.l:
            return v.has and isinstance(v.v, int) and 0 <= v.v < len(self.l) and self.l[v.v] == self.t
        return not v.has


def seq_others(states):
    out, seen = [], set()
    for e, m in states:
        if isinstance(m, (Fin, Inf)):
            k = (m.inf, tuple(m[:6]))
            if k not in seen and (m.inf or len(m) <= 3):
                seen.add(k)
                out.append((e, m))
    fin = [x for x in out if not x[1].inf][:5]
    inf = [x for x in out if x[1].inf][:1]
    return fin + inf


def run(tier):
    rep = Report(PROP, tier, 'model_checking',
                 'explicit-state BFS over Sequence<int> values from literal arrays, ranges (all step signs, 64-bit edges), empty '
                 'sequences and infinite sequences; every copying update / slice / concatenation / map / sort / filter / repeat on '
                 'every state with indices at -len-1..len+1 and 2^64; key = (model list, representation path to depth 3); every edge '
                 'observes len, every index, forced elements, eq/cmp/hash/to_str against the literal list, searches and folds on '
                 'the post-state and again on the pre-state; non-trivial = edges whose post-state differs')
    dom = SeqDomain(tier)
    depth = 2 if tier == 'quick' else 3
    rep.bounds['depth'] = depth
    rep.bounds['max_list_length'] = MAXLEN
    explore(rep, dom, max_depth=depth, binary_pool=seq_others, max_states=(20000 if tier == 'quick' else 400000))
    # every bracketing of a concatenation of 2..5 (thorough 6) parts of different representations
    from ..table import run_table
    parts = [('[1]', [1]), ('[2, 3]', [2, 3]), ('range(4, 6)', [4, 5]), ('[6].map(inc)', [7]), ('[8, 9, 10].skip(1)', [9, 10]), ('[11, 12]', [11, 12]), ('ids([])', [])]

    def trees(lo, hi):
        if hi - lo == 1:
            yield parts[lo][0], list(parts[lo][1])
            return
        for mid in range(lo + 1, hi):
            for le, lv in trees(lo, mid):
                for re_, rv in trees(mid, hi):
                    yield '(%s + %s)' % (le, re_), lv + rv
    chain = []
    for k in range(2, (7 if tier == 'quick' else 8)):
        for start in range(0, len(parts) - k + 1):
            for expr, val in trees(start, start + k):
                n = len(val)
                obs = '(S.len(), S == %s, S.to_array(), [%s], S.skip(1).to_array(), S.take(%d).to_array(), (S + [0]).len(), ([0] + S)[%d])' % (
                    lit(val), ', '.join('S[%d]' % i for i in range(n)), max(n - 1, 0), n)
                exp = (n, True, Seq(val), Seq(val), Seq(val[1:]), Seq(val[:max(n - 1, 0)]), n + 1, val[-1] if val else 0)
                chain.append({'sig': 'C15|chain-shape|%s' % expr, 'src': 'let S = %s; %s' % (expr, obs), 'exp': exp})
    rep.bounds['chain_shapes'] = len(chain)
    run_table(rep, chain, {'prelude': [dom.prelude]}, chunk=100)
    rep.sample({'edge': 'range(2, 11, 3) --skip(1)--> [5, 8] (repr Slice(Range))'})
    rep.sample({'edge': '[1, 2, 3] --insert(-1, 9)--> [1, 2, 9, 3] or an error value'})
    rep.sample({'edge': 'count() --take(2)--> [0, 1]'})
    rep.assumptions = ['plain Python lists are the reference; requests the book does not define (take/skip beyond the end, insert at '
                       'len or at a negative index, repeat(0)) may give the list result or an error value',
                       'infinite sequences are modelled by their first %d elements' % INFP,
                       'a search limit of 5000 is configured only as a safety net against unbounded native loops']
    return rep.finish()


def replay(rec):
    from ..table import replay_table
    return replay_table(rec)
