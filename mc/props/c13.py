"""C13 — floats are always finite.  E1: every float-producing library function x edge-value argument tuples;
range oracle (no reference value needed): the dump contains no float whose exponent field is all ones."""
import math, itertools
from ..core import Report, xint, xfloat, xstr, walk, Err, Viol, Panic, Fatal, CErr, HostErr, Failure, run_units, pmap, chunks, unit_job
from .. import stdlib
from ..stdlib import Pools, parse_type, contains_type, instantiate, arities, arg_tuples, call_src, FLOAT, INT

PROP = 'C13'

F_QUICK = [0.0, -0.0, 5e-324, 1e-300, 0.5, 1.0, -1.0, 2.0, 709.79, 1e155, 1e300, 1.7976931348623157e308, -1.7976931348623157e308]
F_THOROUGH = F_QUICK + [2.2250738585072014e-308, 1.0000000000000002, math.pi / 2, math.pi, 709.0, 710.0, -745.2, 1e16, 1e154,
                        -1e300, -0.5, -2.0, 1e-155, 3.0, 170.0, 171.7, 0.9999999999999999]
I_POOL = [0, 1, -1, 2, 1023, 1024, 1 << 53, 1 << 63, 1 << 64, 1 << 1023, 1 << 1024, (1 << 1024) - 1, (1 << 1024) - (1 << 970),
          (1 << 1024) - (1 << 970) - 1, (1 << 1024) - (1 << 971), -((1 << 1024) - 1), 10 ** 400]

CARRIERS = ('float', 'Complex', 'Duration', 'Datetime', 'JSON', 'LinearRegression', 'Matrix')


def carries_float(t):
    return any(contains_type(t, c) for c in CARRIERS)


def build_cases(tier, sigs):
    fl = F_QUICK if tier == 'quick' else F_THOROUGH
    ints = I_POOL if tier != 'quick' else I_POOL[:9] + I_POOL[10:14]
    pools = Pools(ints=ints, floats=fl, size=len(fl))
    small = Pools(ints=ints[:5], floats=fl[:5], size=3)
    out = []
    seen = set()
    for sig in sigs:
        if sig['kind'] != 'static' or sig['name'].startswith('__std'):
            continue
        for bind, ptypes, opts, ret in instantiate(sig, generic_choices=(FLOAT,)):
            if not carries_float(ret):
                continue
            if any(contains_type(p, 'Regex') or contains_type(p, 'Match') for p in ptypes):
                continue
            for ar in arities(opts):
                pts = ptypes[:ar]
                scalar = all(p in (FLOAT, INT) for p in pts)
                combos = arg_tuples(pools if scalar else small, pts, len(fl) if scalar and ar <= 2 else (5 if scalar else 3),
                                    400 if tier == 'quick' else 1200)
                if combos is None:
                    continue
                for c in combos:
                    src = call_src(sig['name'], list(c))
                    if src in seen:
                        continue
                    seen.add(src)
                    out.append({'sig': 'C13|%s|%s' % (sig['name'], src), 'src': src})
    # operators, conversions, dynamic statistics, literals
    fx = [xfloat(v) for v in fl]
    ix = [xint(v) for v in ints]
    extra = []
    for a in fx:
        for b in fx:
            for op in ('+', '-', '*', '/', '**', '%'):
                extra.append(('op' + op, '%s %s %s' % (a, op, b)))
        for b in ix:
            for op in ('+', '-', '*', '/', '**'):
                extra.append(('opfi' + op, '%s %s %s' % (a, op, b)))
                extra.append(('opif' + op, '%s %s %s' % (b, op, a)))
    for a in ix:
        for b in ix:
            extra.append(('int/', '%s / %s' % (a, b)))
        extra.append(('to_float', 'to_float(%s)' % a))
        extra.append(('to_float-json', 'json(%s)' % a))
    trip = fx[:8] if tier == 'quick' else fx[:14]
    for fn in ('mean', 'geo_mean', 'harmonic_mean', 'median', 'sum', 'product', 'max', 'min'):
        for a, b in itertools.product(trip, repeat=2):
            extra.append((fn, '%s([%s, %s])' % (fn, a, b)))
            extra.append((fn + '-gen', '%s([%s, %s, %s].to_generator())' % (fn, a, b, a)) if fn in ('mean', 'geo_mean', 'harmonic_mean', 'sum', 'product') else (fn, '%s([%s])' % (fn, a)))
    for a in fx:
        for fn in ('floor', 'ceil', 'trunc', 'to_str', 'fraction', 'complex', 'seconds', 'days', 'years', 'datetime', 'json'):
            extra.append((fn, '%s(%s)' % (fn, a)))
        extra.append(('is_close', 'is_close(%s, %s)' % (a, a)))
        extra.append(('format', 'format(%s, ".3e")' % a))
    for lit in ('1e308', '1e309', '1e999', '1.7976931348623157e308', '1.7976931348623159e308', '2e308', '0.1e400', '1e-999',
                '9' * 400, '9' * 310 + '.5', '1' + '0' * 39, '1' + '0' * 39 + '.0', '179769313486231580793728971405303415079934132710037826936173778980444968292764750946649017977587207096330286416692887910946555547851940402630657488671505820681908902000708383676273854845817711531764475730270069855571366959622842914819860834936475292719074168444365510704342711559699508093042880177904174497792'):
        extra.append(('literal', lit))
        extra.append(('literal-neg', '-%s' % lit))
    for txt in ('1e999', '-1e999', '1e308', '1e309', '123456789012345678901234567890', '9' * 400, '0.1e400', '[1e400]', '{"a": 1e999}', 'NaN', 'Infinity', '-Infinity'):
        extra.append(('json_deserialize', 'json_deserialize(%s)' % xstr(txt)))
        extra.append(('json-roundtrip', 'json_deserialize(%s).serialize()' % xstr(txt)))
    # distributions built from edge parameters, then every float-producing method on them
    dpar = [0.5, 2.0, 1000.0] if tier == 'quick' else \
           [0.0, 0.5, 1.0, 2.0, 1000.0, 1e155, -1.0]
    dpools = Pools(ints=[2, 40] if tier == 'quick' else [0, 1, 2, 40], floats=dpar, size=len(dpar))
    methods = ['%s.sample(40)', '%s.random()', '%s.mean()', '%s.variance()', '%s.std_dev()', '%s.skewness()']
    xs = ['0.0', '1.0', xfloat(-1e300), xfloat(1e300), xfloat(5e-324)]
    for x in xs:
        methods += ['%%s.pdf(%s)' % x, '%%s.cdf(%s)' % x, '%%s.z_score(%s)' % x]
    for p in ('0.0', '1.0', '0.5', xfloat(1e-300), '0.9999999999999999', '1.0000000000000002', xfloat(-5e-324), xfloat(-2.220446049250313e-16), '1.5', '-0.5'):
        methods.append('%%s.quantile(%s)' % p)
    for sig in sigs:
        if sig['kind'] != 'static' or sig['ret'] not in ('ContinuousDistribution<>',):
            continue
        for bind, ptypes, opts, ret in instantiate(sig):
            if any(p not in (FLOAT, INT) for p in ptypes):
                continue
            for ar in arities(opts):
                combos = arg_tuples(dpools, ptypes[:ar], len(dpar), 160 if tier == 'quick' else 2000)
                for c in combos or []:
                    d = call_src(sig['name'], list(c))
                    for m in methods:
                        extra.append(('dist-' + sig['name'], m % d))
    dmethods = ['%s.sample(40)', '%s.random()', '%s.mean()', '%s.variance()', '%s.std_dev()', '%s.skewness()', '%s.pmf(0)', '%s.pmf(1)',
                '%s.cdf(0)', '%s.cdf(%s)' % ('%s', xint(1 << 62)), '%s.quantile(0.0)', '%s.quantile(1.0)', '%s.quantile(0.5)', '%s.z_score(1.0)',
                '%s.quantile(1.0000000000000002)', '%s.quantile(' + xfloat(-5e-324) + ')', '%s.quantile(1.5)']
    for sig in sigs:
        if sig['kind'] != 'static' or sig['ret'] not in ('DiscreteDistribution<>',):
            continue
        for bind, ptypes, opts, ret in instantiate(sig):
            if any(p not in (FLOAT, INT) for p in ptypes):
                continue
            for ar in arities(opts):
                combos = arg_tuples(dpools, ptypes[:ar], len(dpar), 120 if tier == 'quick' else 1000)
                for c in combos or []:
                    d = call_src(sig['name'], list(c))
                    for m in dmethods:
                        extra.append(('ddist-' + sig['name'], m % d))
    for kind, src in extra:
        if src in seen:
            continue
        seen.add(src)
        out.append({'sig': 'C13|%s|%s' % (kind, src), 'src': src})
    return out


def nonfinite(v):
    for n in walk(v):
        if isinstance(n, float) and not math.isfinite(n):
            return n
    return None


def _chunk(args):
    chunk, = args
    units = [('c%d' % i, 'let c%d = ()->{ %s };' % (i, c['src'])) for i, c in enumerate(chunk)]
    outs = run_units(units, dump={'max_items': 40}, timeout=6.0)
    res = []
    for c, o in zip(chunk, outs):
        v = o.v
        if isinstance(v, CErr):
            res.append(('rejected', None)); continue
        if isinstance(v, Err):
            res.append(('error', None)); continue
        if isinstance(v, Viol):
            res.append(('violation', None)); continue
        if isinstance(v, HostErr):
            res.append(('host-error', None)); continue
        if isinstance(v, (Panic, Fatal)):
            why = 'panic@' + v.loc if isinstance(v, Panic) else 'fatal:' + v.kind
            res.append(('crash', (why, repr(v)))); continue
        bad = nonfinite(v)
        if bad is not None:
            res.append(('nonfinite', ('non-finite-float', repr(v)))); continue
        inner = [n for n in walk(v) if isinstance(n, Panic)]
        if inner:
            res.append(('crash', ('panic-inside@' + inner[0].loc, repr(v)))); continue
        res.append(('finite' if any(isinstance(n, float) for n in walk(v)) else 'value-without-float', None))
    return res


def run(tier):
    rep = Report(PROP, tier, 'exploration',
                 'every static overload whose return type carries a float (float, Complex, Duration, Datetime, JSON, Matrix, '
                 'LinearRegression, containers of these) x argument tuples from edge pools (complete product for arity<=2), plus '
                 'operators, dynamic statistics, literal spellings and JSON numbers; oracle: no non-finite float anywhere in the '
                 'result dump (else it must be an error value); non-trivial = distinct call expressions that compiled and ran')
    sigs = stdlib.signatures()
    cs = build_cases(tier, sigs)
    rep.bounds = {'float_pool': len(F_QUICK if tier == 'quick' else F_THOROUGH), 'int_pool': len(I_POOL), 'cases': len(cs)}
    idx = 0
    for res in pmap(_chunk, [(c,) for c in chunks(cs, 200)]):
        for cls, fail in res:
            c = cs[idx]; idx += 1
            rep.evaluations += 1
            rep.outcome(cls)
            if cls not in ('rejected', 'host-error'):
                rep.nontrivial.add(c['src'])
            if fail:
                why, actual = fail
                rep.fail(Failure(PROP, '%s|%s' % (c['sig'], why), c, 'finite float(s) or an error value', actual,
                                 unit_job((), 'c0', 'let c0 = ()->{ %s };' % c['src'], dump={'max_items': 40})))
    for k in (0, len(cs) // 2, len(cs) - 1):
        rep.sample(cs[k]['src'])
    rep.assumptions = ['range claim only: values are not compared with a reference (that is C02/C14/C20)',
                       'calls the compiler rejects (generic instantiation that does not type) are skipped and counted as rejected']
    return rep.finish()


def replay(rec):
    from ..table import replay_table
    return replay_table(rec)
