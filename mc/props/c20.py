"""C20 — documented conversions are mutually inverse and canonical.  E1 with independent oracles: Python json (strict),
a proleptic-Gregorian civil-from-days algorithm, fractions.Fraction, Python int parsing and chr/ord."""
import json, itertools, math, datetime as _dt
from fractions import Fraction
from ..core import Report, xint, xfloat, xstr, Seq, Opt, Err, veq
from ..table import run_table, replay_table, ERR, UNSPEC, pred, predicate

PROP = 'C20'
EPOCH_JD = 2440588  # julian day number of 1970-01-01


def civil_from_jd(jd):
    """proleptic Gregorian (year, month, day) of a Julian day number (Howard Hinnant's civil_from_days)"""
    z = jd - EPOCH_JD + 719468
    era = z // 146097   # Python's // already floors
    doe = z - era * 146097
    yoe = (doe - doe // 1460 + doe // 36524 - doe // 146096) // 365
    y = yoe + era * 400
    doy = doe - (365 * yoe + yoe // 4 - yoe // 100)
    mp = (5 * doy + 2) // 153
    d = doy - (153 * mp + 2) // 5 + 1
    m = mp + 3 if mp < 10 else mp - 9
    return (y + (1 if m <= 2 else 0), m, d)


# self-check of the reference against the standard library on years 1..9999
for _o in (1, 2, 59, 60, 365, 366, 730119, 735000, 3652059):
    _d = _dt.date.fromordinal(_o)
    assert civil_from_jd(_o + 1721425) == (_d.year, _d.month, _d.day), _o


# ----------------------------------------------------------------------------- JSON
ATOMS = [None, True, False, 0, -0.5, 1e21, 123456789012, 5e-324, 1.7976931348623157e308, 0.1, -3,
         '', 'a', '"\\/\b\f\n\r\t', '\u0001', 'é', '\U0001F600', 'a"b', ' ', '\x7f', '\x1f', 'a\x1fb', '\x00', '\x1e', '\x19']
KEYS = ['', 'k', 'é', 'a"b', '\x1f', '\x01k']


def docs(depth, tier):
    atoms = ATOMS if tier != 'quick' else ATOMS[:14] + ATOMS[-5:]
    level = list(atoms)
    out = list(level)
    for d in range(depth):
        small = level[:6] if d == 0 else level[:4]
        new = [[]] + [[a] for a in level[:10]] + [[a, b] for a in small for b in small[:3]]
        new += [{}] + [{k: a} for k in KEYS for a in level[:5]] + [{k1: a, k2: b} for (k1, k2) in (('k', 'é'), ('', 'a"b')) for a in small[:3] for b in small[:2]]
        out += new
        level = new
    return out


def xjson(doc):
    if doc is None: return 'json(())'
    if doc is True: return 'json(true)'
    if doc is False: return 'json(false)'
    if isinstance(doc, int): return 'json(%s)' % xint(doc)
    if isinstance(doc, float): return 'json(%s)' % xfloat(doc)
    if isinstance(doc, str): return 'json(%s)' % xstr(doc)
    if isinstance(doc, list):
        return 'json(jseq([%s]))' % ', '.join(xjson(x) for x in doc)
    if isinstance(doc, dict):
        e = 'jmap()'
        for k, v in doc.items():
            e += '.set(%s, %s)' % (xstr(k), xjson(v))
        return 'json(%s)' % e
    raise ValueError(doc)


def canon(doc):
    """numbers as floats (JSON has one number type; the language stores doubles)"""
    if isinstance(doc, bool) or doc is None or isinstance(doc, str): return doc
    if isinstance(doc, (int, float)): return float(doc)
    if isinstance(doc, list): return [canon(x) for x in doc]
    return {k: canon(v) for k, v in doc.items()}


def _no_dup(pairs):
    d = {}
    for k, v in pairs:
        if k in d:
            raise ValueError('duplicate key')
        d[k] = v
    return d


@predicate
def json_text_is(v, doc_text):
    if not isinstance(v, str):
        return False, 'not-a-string'
    try:
        got = json.loads(v, object_pairs_hook=_no_dup, parse_constant=lambda c: (_ for _ in ()).throw(ValueError(c)))
    except Exception as e:
        return False, 'invalid-json-text'
    want = json.loads(doc_text)
    return (canon(got) == canon(want)), 'different-document'


JPRE = ('fn jseq(s: Sequence<JSON>)->Sequence<JSON>{ s }\nfn jm0(m: Mapping<str, JSON>)->Mapping<str, JSON>{ m }\n'
        'fn jmap()->Mapping<str, JSON>{ jm0(mapping<str>()) }\n')


def json_cases(tier):
    out = []
    ds = docs(1 if tier == 'quick' else 2, tier)
    for i, d in enumerate(ds):
        text = json.dumps(d)
        key = text[:80] + ('#%d' % i)
        out.append({'sig': 'C20|json-serialize|' + key, 'src': '%s.serialize()' % xjson(d), 'exp': pred('json_text_is', text)})
        out.append({'sig': 'C20|json-roundtrip|' + key, 'src': 'json_deserialize(%s.serialize()) == %s' % (xjson(d), xjson(d)), 'exp': True})
        for style, t in (('compact', json.dumps(d, separators=(',', ':'))), ('indent', json.dumps(d, indent=2)), ('unicode', json.dumps(d, ensure_ascii=False))):
            out.append({'sig': 'C20|json-deserialize-%s|%s' % (style, key), 'src': 'json_deserialize(%s).serialize()' % xstr(t), 'exp': pred('json_text_is', text)})
            out.append({'sig': 'C20|json-deserialize-eq-%s|%s' % (style, key), 'src': 'json_deserialize(%s) == %s' % (xstr(t), xjson(d)), 'exp': True})
    # malformed texts: every single-character deletion of a few valid texts that makes them invalid
    valid = ['{"a": [1, 2.5, "x"], "b": null}', '[true, false, "\\u00e9\\n"]', '{"k": {"k": []}}', '-1.5e3', '"abc"', '[1, 2]']
    seen = set()
    for t in valid:
        for i in range(len(t)):
            m = t[:i] + t[i + 1:]
            if m in seen:
                continue
            seen.add(m)
            try:
                json.loads(m)
                ok = True
            except Exception:
                ok = False
            if not ok:
                out.append({'sig': 'C20|json-malformed|' + m, 'src': 'json_deserialize(%s)' % xstr(m), 'exp': ERR})
    for m in ('', ' ', '{', '[1,]', '{"a":}', 'nul', '"\\x"', '01', '1.', '.5', "'a'", '[1 2]', '{"a":1,}', '"\\ud800"', '﻿1', 'NaN', 'Infinity'):
        out.append({'sig': 'C20|json-malformed|' + m, 'src': 'json_deserialize(%s)' % xstr(m), 'exp': ERR})
    # escaped surrogate pair spelling of a non-BMP character
    out.append({'sig': 'C20|json-surrogate-pair', 'src': 'json_deserialize(%s) == json(%s)' % (xstr('"\\ud83d\\ude00"'), xstr('\U0001F600')), 'exp': True})
    return out


# ----------------------------------------------------------------------------- dates
def date_blocks(tier):
    """in-language sweeps: each block returns the list of julian days that fail the round-trip / order / weekday laws"""
    out = []
    lo, hi = -3000000, 3000000
    if tier == 'quick':
        centers = set()
        for y in list(range(-8000, 3600, 400)) + [1582, 1600, 1700, 1800, 1900, 1970, 2000, 2024, 2100, 0, 1, -1, 4, 100]:
            for (m, d) in ((1, 1), (3, 1), (12, 31), (2, 28)):
                centers.add(jd_from_civil(y, m, d))
        centers.update((0, 1, -1, lo, hi, EPOCH_JD, 1721425, 1721060))
        ranges = sorted(set((max(lo, c - 40), min(hi, c + 40)) for c in centers))
        ranges += [(s, s + 1) for s in range(lo, hi, 9973)]
        merged = []
        for a, b in sorted(ranges):
            if merged and a <= merged[-1][1]:
                merged[-1] = (merged[-1][0], max(merged[-1][1], b))
            else:
                merged.append((a, b))
        blocks = merged
    else:
        blocks = [(a, min(a + 20000, hi + 1)) for a in range(lo, hi + 1, 20000)]
    for a, b in blocks:
        src = ('range(%d, %d).filter((jd: int)->{ let d = date(jd); !(d.julian_day() == jd && cmp(d, date(jd + 1)) < 0 && d.weekday() == jd %% 7 '
               '&& d::month >= 1 && d::month <= 12 && d::day >= 1 && d::day <= 31) }).to_array()' % (a, b))
        out.append({'sig': 'C20|date-laws|[%d,%d)' % (a, b), 'src': src, 'exp': pred('empty_seq'), 'n': b - a})
    return out


def jd_from_civil(y, m, d):
    y2 = y - (1 if m <= 2 else 0)
    era = y2 // 400
    yoe = y2 - era * 400
    doy = (153 * (m + (-3 if m > 2 else 9)) + 2) // 5 + d - 1
    doe = yoe * 365 + yoe // 4 - yoe // 100 + doy
    return era * 146097 + doe - 719468 + EPOCH_JD


@predicate
def empty_seq(v):
    ok = isinstance(v, Seq) and v.ln == 0
    return ok, '' if ok else 'failing-elements'


def date_field_cases(tier):
    out = []
    jds = set()
    years = list(range(-7000, 3600, 100 if tier == 'quick' else 25)) + [1582, 1600, 1900, 1970, 2000, 2023, 2024, 2100, 0, 1, -1, 4, -4, 100, -100, 400, -400]
    for y in years:
        for (m, d) in ((1, 1), (2, 28), (3, 1), (12, 31), (2, 29) if (y % 4 == 0 and (y % 100 != 0 or y % 400 == 0)) else (6, 15)):
            j = jd_from_civil(y, m, d)
            jds.update((j - 1, j, j + 1))
    jds.update((0, 1, -1, -3000000, 3000000, EPOCH_JD))
    for jd in sorted(j for j in jds if -3000000 <= j <= 3000000):
        y, m, d = civil_from_jd(jd)
        assert jd_from_civil(y, m, d) == jd
        out.append({'sig': 'C20|date-fields|%d' % jd, 'src': 'let d = date(%s); (d::year, d::month, d::day, d.weekday())' % xint(jd), 'exp': (y, m, d, jd % 7)})
        out.append({'sig': 'C20|julian_day|%d-%d-%d' % (y, m, d), 'src': 'Date(%s, %d, %d).julian_day()' % (xint(y), m, d), 'exp': jd})
    return out


def datetime_cases(tier):
    out = []
    days = sorted(set([0, 1, -1, 365, -365, 10957, 19000, 25000, -25567, 100000, -100000, 1157407, -1157407] +
                      (list(range(-1150000, 1150001, 28750)) if tier != 'quick' else list(range(-1100000, 1100001, 220000)))))
    for day in days:
        for sod in (0, 1, 59, 60, 61, 3599, 3600, 3601, 43200, 86399):
            for frac in (0.0, 0.25, 0.5):
                t = float(day * 86400 + sod) + frac
                if abs(t) > 1e11:
                    continue
                secs = t % 60.0
                u = math.floor(t / 60.0)
                mins = u % 60
                u //= 60
                hours = u % 24
                dd = u // 24
                y, m, d = civil_from_jd(dd + EPOCH_JD)
                out.append({'sig': 'C20|datetime|%r' % t,
                            'src': 'let dt = datetime(%s); (dt::date::year, dt::date::month, dt::date::day, dt::hours, dt::minutes, dt::seconds, dt.unix())' % xfloat(t),
                            'exp': (y, m, d, hours, mins, secs, t)})
    return out


# ----------------------------------------------------------------------------- fractions
FR_N = [0, 1, -1, 2, -2, 3, -3, 6, -6, 1 << 31, -(1 << 31), (1 << 62) + 1, -((1 << 62) + 1), 1 << 64, -(1 << 64), (1 << 70) - 1, 3 << 69]


def frac_cases(tier):
    out = []
    ns = FR_N if tier != 'quick' else FR_N[:9] + [(1 << 62) + 1, 1 << 64, -((1 << 70) - 1)]

    def fx(f):
        return (f.numerator, f.denominator)
    pairs = [(n, d) for n in ns for d in ns]
    for n, d in pairs:
        src = 'fraction(%s, %s)' % (xint(n), xint(d))
        if d == 0:
            out.append({'sig': 'C20|fraction-ctor|%d/%d' % (n, d), 'src': 'let f = %s; (f::n, f::d)' % src, 'exp': ERR})
            continue
        out.append({'sig': 'C20|fraction-ctor|%d/%d' % (n, d), 'src': 'let f = %s; (f::n, f::d)' % src, 'exp': fx(Fraction(n, d))})
    # numerator and denominator share a factor beyond 64 bits: the reduced parts are small again and must BE the small integers
    for g in (1 << 63, 1 << 64, 1 << 70, 3 ** 50, (1 << 63) - 1, (1 << 127) + 1):
        for (n0, d0) in ((3, 5), (-3, 5), (1, 1), (0, 7), (7, 1), (2, 4)):
            F = Fraction(n0 * g, d0 * g)
            src = 'fraction(%s, %s)' % (xint(n0 * g), xint(d0 * g))
            out.append({'sig': 'C20|fraction-big-gcd|%d*%d/%d*%d' % (n0, g, d0, g),
                        'src': 'let f = %s; (f::n == %d, f::d == %d, f == fraction(%d, %d), hash(f) == hash(fraction(%d, %d)), 7 %% f::d, (f::n, f::d))' % (
                            src, F.numerator, F.denominator, F.numerator, F.denominator, F.numerator, F.denominator),
                        'exp': (True, True, True, True, 7 % F.denominator, fx(F))})
    base = [(1, 2), (-3, 7), (0, 1), (5, 1), ((1 << 62) + 1, 3), (-(1 << 64), (1 << 31)), ((1 << 70) - 1, 1 << 64), (2, -6)]
    if tier == 'quick':
        base = base[:6]
    for (a, b) in base:
        for (c, d) in base:
            A, B = Fraction(a, b), Fraction(c, d)
            fa = 'fraction(%s, %s)' % (xint(a), xint(b))
            fb = 'fraction(%s, %s)' % (xint(c), xint(d))
            k = '%d/%d,%d/%d' % (a, b, c, d)
            for op, f in (('add', lambda: A + B), ('sub', lambda: A - B), ('mul', lambda: A * B), ('div', lambda: A / B), ('mod', lambda: A % B)):
                try:
                    want = fx(f())
                except ZeroDivisionError:
                    want = ERR
                out.append({'sig': 'C20|fraction-%s|%s' % (op, k), 'src': 'let f = %s(%s, %s); (f::n, f::d)' % (op, fa, fb), 'exp': want})
            out.append({'sig': 'C20|fraction-cmp|' + k, 'src': 'sign(cmp(%s, %s))' % (fa, fb), 'exp': (A > B) - (A < B)})
            out.append({'sig': 'C20|fraction-eq|' + k, 'src': '(%s == %s, hash(%s) == hash(%s))' % (fa, fb, fa, fb), 'exp': pred('eq_hash', A == B)})
        A = Fraction(a, b)
        fa = 'fraction(%s, %s)' % (xint(a), xint(b))
        k = '%d/%d' % (a, b)
        out.append({'sig': 'C20|fraction-unary|' + k, 'src': 'let f = %s; (floor(f), ceil(f), trunc(f), sign(f), neg(f)::n, abs(f)::n)' % fa,
                    'exp': (math.floor(A), math.ceil(A), math.trunc(A), (A > 0) - (A < 0), (-A).numerator, abs(A).numerator)})
        for e in (0, 1, 2, 3, -1, -2):
            try:
                want = fx(A ** e)
            except ZeroDivisionError:
                want = ERR
            if A == 0 and e == 0:
                want = UNSPEC   # the language defines 0 ** 0 as an error for integers
            out.append({'sig': 'C20|fraction-pow|%s^%d' % (k, e), 'src': 'let f = pow(%s, %d); (f::n, f::d)' % (fa, e), 'exp': want})
    for f in (0.5, -0.75, 3.0, 0.1, 1e-5, 123456.789, 2.0 ** -40, -(2.0 ** 60 + 2.0 ** 8), 5e-324, 1e300):
        out.append({'sig': 'C20|fraction-float|%r' % f, 'src': 'let f = fraction(%s); (f::n, f::d)' % xfloat(f), 'exp': fx(Fraction(f))})
    return out


@predicate
def eq_hash(v, equal):
    if not (isinstance(v, tuple) and len(v) == 2):
        return False, 'wrong-shape'
    if v[0] is not equal:
        return False, 'wrong-eq'
    if equal and v[1] is not True:
        return False, 'equal-but-different-hash'
    return True, ''


# ----------------------------------------------------------------------------- characters
def chr_blocks(tier):
    out = []
    step = 0x1000 if tier != 'quick' else 0x4000
    rngs = [(a, min(a + step, 0x110000)) for a in range(0, 0x110000, step)]
    for a, b in rngs:
        # every valid scalar value round-trips; surrogates must be errors
        src = ('range(%d, %d).filter((i: int)->{ let c = chr(i); if(i >= 55296 && i <= 57343, !is_error(c), '
               'is_error(c) || code_point(c) != i || c.len() != 1) }).to_array()' % (a, b))
        out.append({'sig': 'C20|chr-code_point|[%#x,%#x)' % (a, b), 'src': src, 'exp': pred('empty_seq')})
    for i in (0x110000, 0x110001, 1 << 32, -1, 1 << 64):
        out.append({'sig': 'C20|chr-out-of-range|%d' % i, 'src': 'chr(%s)' % xint(i), 'exp': ERR})
    return out


def radix_cases(tier):
    from .c14 import pool
    out = []
    P = [v for v in pool('quick')]
    digs = '0123456789abcdefghijklmnopqrstuvwxyz'
    for v in P:
        for b in (range(2, 37) if tier != 'quick' else (2, 3, 8, 10, 16, 36)):
            n, s = abs(v), ''
            while True:
                s = digs[n % b] + s
                n //= b
                if n == 0:
                    break
            t = ('-' if v < 0 else '') + s
            out.append({'sig': 'C20|to_int-radix|%d|%d' % (v, b), 'src': 'to_int(%s, %d)' % (xstr(t), b), 'exp': v})
            if b in (2, 8, 16):
                out.append({'sig': 'C20|format-to_int|%d|%d' % (v, b), 'src': 'to_int(format(%s, %s), %d)' % (xint(v), xstr({2: 'b', 8: 'o', 16: 'x'}[b]), b), 'exp': v})
            if v >= 0 and b <= 36:
                out.append({'sig': 'C20|digits-roundtrip|%d|%d' % (v, b),
                            'src': 'digits(%s, %d).enumerate().map((p: (int, int))->{ p::item1 * %d ** p::item0 }).reduce(0, add{int, int})' % (xint(v), b, b), 'exp': v})
        out.append({'sig': 'C20|to_str-to_int|%d' % v, 'src': 'to_int(to_str(%s))' % xint(v), 'exp': v})
    for bad, b in (('2', 2), ('8', 8), ('g', 16), ('z', 35), ('', 10), ('-', 10), ('1 2', 10), ('0x10', 16), ('é', 10)):
        out.append({'sig': 'C20|to_int-invalid|%s|%d' % (bad, b), 'src': 'to_int(%s, %d)' % (xstr(bad), b), 'exp': ERR})
    return out


def run(tier):
    rep = Report(PROP, tier, 'model_checking',
                 'JSON documents (atoms x arrays x objects to nesting depth) serialised and parsed by Python json in both directions, '
                 'malformed texts; every Julian day in the sweep ranges checked in-language for round trip, strict order and weekday, '
                 'calendar fields compared with a civil-from-days reference around every century/leap/year boundary; datetime<->unix '
                 'at minute/hour/day boundaries; fraction constructor and arithmetic on the complete product of an operand pool '
                 'against fractions.Fraction; to_int/format/digits in every base; chr/code_point for every scalar value; '
                 'non-trivial = distinct cases')
    groups = [('json', json_cases(tier), {'prelude': [JPRE], 'dump': {'max_items': 64}}),
              ('date-laws', date_blocks(tier), {'dump': {'max_items': 16}, 'timeout': 120.0}),
              ('date-fields', date_field_cases(tier), {}),
              ('datetime', datetime_cases(tier), {}),
              ('fraction', frac_cases(tier), {}),
              ('chr', chr_blocks(tier), {'dump': {'max_items': 16}, 'timeout': 120.0}),
              ('radix', radix_cases(tier), {'dump': {'max_items': 16}})]
    tot_days = 0
    for name, cs, opts in groups:
        rep.bounds[name] = len(cs)
        if name == 'date-laws':
            tot_days = sum(c['n'] for c in cs)
            for c in cs:
                c.pop('n')
        run_table(rep, cs, opts, chunk=(8 if name in ('date-laws', 'chr') else 150))
    rep.bounds['julian_days_swept'] = tot_days
    rep.states = rep.evaluations
    rep.transitions = rep.evaluations
    rep.traces = rep.evaluations
    rep.assumptions = ['Python json/fractions/int/chr and a civil-from-days algorithm (self-checked against datetime.date) are the references',
                       'JSON numbers are compared as doubles; object key order is not compared']
    return rep.finish()


def replay(rec):
    return replay_table(rec)
