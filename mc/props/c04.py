"""C04 — the compiler accepts exactly the assignable programs; inferred types are least common types.
E1 over a type universe closed under the constructors to depth 1 (quick) / 2 (thorough) with the reference relation
mc/model/types.py:
 A. (required, supplied) matrix in every syntactic position where a type is required (let, argument, struct field, variant
    payload, return value, default value, lambda return) with the supplied value given as a literal witness and as a parameter of
    the supplied type;
 B. generic calls: signature shapes x argument type tuples — accepted iff every generic parameter has a least common type; the
    result type is probed (accepted at the expected type, rejected at every single-leaf variation of it);
 C. inferred types of sequence literals, if, tuples, generic compounds, Optional / concatenation — least common type, independent
    of the order of the parts."""
import itertools, hashlib
from ..core import Report, Failure, run_job, pmap, chunks, Machinery
from ..model import types as T
from ..model.types import render, assignable, lub, witness, writable

PROP = 'C04'
# types named like the generic parameters used below: a generic parameter is the nearest declaration of its name, so these never matter
SHADOW = 'struct T(q: int)\nstruct A(q: int)\nstruct B(q: int)\nstruct U(q: int)\nstruct V(q: int)\n'


def nat(n, *a):
    return ('nat', n, tuple(a))


def cmp_(n, *a):
    return ('cmp', n, tuple(a))


def tup(*a):
    return ('tup', tuple(a))


def fn(ps, r):
    return ('fn', tuple(ps), r)


def universe(tier):
    L0 = ['int', 'str', 'float', 'bool']
    L0u = L0 + ['unk']
    two = ['int', 'str']
    L1 = []
    L1 += [nat('Sequence', x) for x in L0u] + [nat('Optional', x) for x in L0u] + [nat('Generator', x) for x in two] + [nat('Stack', x) for x in two]
    L1 += [nat('Mapping', 'int', x) for x in two] + [nat('Mapping', 'str', 'int'), nat('Set', 'int'), nat('Set', 'str')]
    L1 += [tup(x) for x in two] + [tup(x, y) for x in two + ['unk'] for y in two + ['unk']] + [tup('int', 'int', 'int'), tup()]
    L1 += [fn([], x) for x in two] + [fn([x], y) for x in two for y in two] + [fn(['int', 'int'], 'int'), fn(['int', 'str'], 'int')]
    L1 += [cmp_('S0'), cmp_('U0')] + [cmp_('S1', x) for x in two + ['unk']] + [cmp_('S2', x, y) for x in two for y in two] + [cmp_('U1', x) for x in two]
    L1 += list(T.NAMED.values())
    L2 = []
    if tier != 'quick':
        inner = [nat('Sequence', 'int'), nat('Sequence', 'str'), nat('Sequence', 'unk'), nat('Optional', 'int'), nat('Optional', 'unk'), tup('int', 'str'), tup('int', 'unk'),
                 fn(['int'], 'int'), fn(['int'], 'str'), fn(['int', 'int'], 'int'), cmp_('S0'), cmp_('S1', 'int'), cmp_('S1', 'unk'), cmp_('S2', 'int', 'str'), cmp_('S2', 'str', 'int'),
                 cmp_('U1', 'int'), nat('Mapping', 'int', 'str'), T.NAMED['nf1'], T.NAMED['nf12']]
        for x in inner:
            L2 += [nat('Sequence', x), nat('Optional', x), tup(x, 'int'), tup('int', x), cmp_('S1', x), cmp_('S2', x, 'int'), cmp_('S2', 'int', x), nat('Mapping', 'int', x)]
            if x[0] != 'named':
                L2 += [fn([x], 'int'), fn([], x), fn(['int'], x)]
    sup = L0u + L1 + L2
    sup = list(dict.fromkeys(sup))
    req = [t for t in sup if writable(t)]
    return req, sup


# ----------------------------------------------------------------------------- A. positions
def positions_expr(i, R, W):
    r = render(R)
    i = 'e%s' % i
    return [
        ('let', 'let v%s: %s = %s;' % (i, r, W)),
        ('arg', 'fn fa%s(x: %s)->int{ 0 } let va%s = fa%s(%s);' % (i, r, i, i, W)),
        ('field', 'struct WS%s(x: %s) let vs%s = WS%s(%s);' % (i, r, i, i, W)),
        ('variant', 'union WU%s(x: %s, y: int) let vu%s = WU%s::x(%s);' % (i, r, i, i, W)),
        ('return', 'fn fr%s()->%s{ %s }' % (i, r, W)),
        ('default', 'fn fd%s(x: %s ?= %s)->int{ 0 }' % (i, r, W)),
        ('lambda-return', 'let vl%s: ()->(%s) = ()->{ %s };' % (i, r, W)),
        ('method-arg', 'fn fm%s(a: int, x: %s)->int{ 0 } let vm%s = 1.fm%s(%s);' % (i, r, i, i, W)),
        ('lambda-default', 'let vd%s = (x: %s ?= %s)->{ 0 };' % (i, r, W)),
        ('lambda-default2', 'let vdd%s = (a: int, x: %s ?= %s, y: int ?= 1)->{ a };' % (i, r, W)),
    ]


def positions_param(i, R, S):
    r, s = render(R), render(S)
    i = 'p%s' % i
    return [
        ('p-let', 'fn hl%s(h: %s)->int{ let v: %s = h; 0 }' % (i, s, r)),
        ('p-arg', 'fn fpa%s(x: %s)->int{ 0 } fn ha%s(h: %s)->int{ fpa%s(h) }' % (i, r, i, s, i)),
        ('p-return', 'fn hr%s(h: %s)->%s{ h }' % (i, s, r)),
        ('p-field', 'struct WP%s(x: %s) fn hf%s(h: %s)->WP%s{ WP%s(h) }' % (i, r, i, s, i, i)),
        ('p-in-seq', 'fn hs%s(h: %s)->Sequence<%s>{ [h] }' % (i, s, r)),
    ]


def _feed(args):
    """compile-only: feed every text on one scope seeded with the declarations; verdict per text"""
    texts, = args
    job = {'id': 0, 'limits': {}, 'steps': [{'feed': T.DECLS}] + [{'feed': t} for t in texts]}
    rep = run_job(job, timeout=60.0)
    if 'fatal' in rep:
        if len(texts) == 1:
            return [('fatal', rep['fatal'])]
        h = len(texts) // 2
        return _feed((texts[:h],)) + _feed((texts[h:],))
    rs = rep['replies']
    if 'ok' not in rs[0]['v']:
        raise Machinery('declarations rejected: %r' % rs[0]['v'])
    out = []
    for r in rs[1:]:
        v = r['v']
        if 'ok' in v:
            out.append(('ok', ''))
        elif 'cerr' in v:
            out.append(('cerr', v['cerr']['class']))
        elif 'panic' in v:
            from ..core import norm_loc
            out.append(('panic', norm_loc(v['panic'].get('loc', '')) + ' ' + v['panic'].get('msg', '')[:100]))
        else:
            out.append(('?', repr(v)[:100]))
    return out


def run_texts(texts, chunk=250):
    res = []
    for part in pmap(_feed, [(w,) for w in chunks(texts, chunk)]):
        res += part
    return res


def job_for(text):
    return {'id': 0, 'limits': {}, 'steps': [{'feed': T.DECLS}, {'feed': text}]}


# ----------------------------------------------------------------------------- B. generic calls
GSIGS = [
    ('gq_g2', ['T'], [('var', 'T'), ('var', 'T')], ('var', 'T')),
    ('gq_gs', ['T'], [('var', 'T'), nat('Sequence', ('var', 'T'))], ('var', 'T')),
    ('gq_go', ['T'], [nat('Optional', ('var', 'T')), ('var', 'T')], nat('Sequence', ('var', 'T'))),
    ('gq_gp', ['A', 'B'], [('var', 'A'), ('var', 'B'), ('var', 'A')], tup(('var', 'A'), ('var', 'B'))),
    ('gq_gf', ['T'], [('var', 'T'), fn([('var', 'T')], ('var', 'T'))], ('var', 'T')),
    ('gq_gc', ['T'], [cmp_('S1', ('var', 'T')), ('var', 'T')], ('var', 'T')),
    ('gq_gc2', ['A', 'B'], [cmp_('S2', ('var', 'A'), ('var', 'B')), ('var', 'A'), ('var', 'B')], cmp_('S2', ('var', 'B'), ('var', 'A'))),
    ('gq_gt', ['A', 'B'], [tup(('var', 'A'), ('var', 'B')), ('var', 'B')], nat('Mapping', 'int', ('var', 'B'))),
    ('gq_gm', ['T'], [nat('Sequence', nat('Optional', ('var', 'T'))), nat('Optional', ('var', 'T'))], ('var', 'T')),
    ('gq_gr', ['T'], [fn([], ('var', 'T')), fn([], ('var', 'T'))], ('var', 'T')),
    ('gq_gk', ['T'], [fn([('var', 'T')], ('var', 'T'))], fn([('var', 'T')], ('var', 'T'))),
    ('gq_gh', ['T', 'U'], [fn([('var', 'T')], ('var', 'U'))], fn([('var', 'T'), ('var', 'T')], ('var', 'U'))),
    ('gq_gz', ['T'], [('var', 'T')], fn([], nat('Sequence', ('var', 'T')))),
]


def gsig_decl(name, gens, params, ret):
    return 'fn %s<%s>(%s)->%s{ error("never run") }\n' % (name, ', '.join(gens), ', '.join('a%d: %s' % (i, render(p)) for i, p in enumerate(params)), render(ret))


def generic_cases(tier):
    """(label, text, expect_ok, probes) where probes = [(text, expect_ok)] on the result type"""
    pool = ['int', 'str', 'unk', nat('Sequence', 'int'), nat('Sequence', 'unk'), nat('Sequence', 'str'), nat('Optional', 'int'), nat('Optional', 'unk'),
            tup('int', 'str'), tup('int', 'unk'), tup('unk', 'str'), fn(['int'], 'int'), fn(['str'], 'str'), fn([], 'int'), fn([], 'str'), T.NAMED['nf1'], T.NAMED['nf12'],
            cmp_('S1', 'int'), cmp_('S1', 'str'), cmp_('S2', 'int', 'str'), cmp_('S2', 'str', 'int'), cmp_('S0')]
    if tier != 'quick':
        pool += [nat('Sequence', nat('Optional', 'int')), nat('Sequence', nat('Optional', 'unk')), nat('Sequence', nat('Sequence', 'unk')), nat('Optional', nat('Sequence', 'int')),
                 cmp_('S1', nat('Sequence', 'unk')), cmp_('S1', nat('Sequence', 'int')), cmp_('S2', 'int', nat('Sequence', 'unk')), tup(nat('Sequence', 'unk'), 'str'),
                 tup(nat('Sequence', 'int'), 'str'), 'float', 'bool']
    pool = [t for t in pool if witness(t) is not None]
    out = []
    n = 0
    for name, gens, params, ret in GSIGS:
        k = len(params)
        for args in itertools.product(pool, repeat=k):
            if k == 3 and tier == 'quick' and sum(1 for a in args if not isinstance(a, str)) > 1:
                continue
            ok, b = T.bind_call(params, list(args))
            if ok == T.UNSPEC:
                continue
            n += 1
            call = '%s(%s)' % (name, ', '.join(witness(a) for a in args))
            label = 'generic|%s|%s' % (name, ' ; '.join(render(a) for a in args))
            probes = []
            if ok and all(g in b for g in gens):
                rt = T.subst(ret, b)
                if writable(rt):
                    probes.append(('let q%d: %s = %s;' % (n, render(rt), call), True, render(rt)))
                    for alt in T.leaf_flips(rt)[:3]:
                        probes.append(('let q%d: %s = %s;' % (n, render(alt), call), False, render(alt)))
            out.append((label, 'let c%d = %s;' % (n, call), ok, probes))
    return out


# ----------------------------------------------------------------------------- C. inferred types
def inferred_cases(tier):
    parts = ['int', 'str', 'unk', nat('Sequence', 'int'), nat('Sequence', 'unk'), nat('Sequence', 'str'), nat('Optional', 'int'), nat('Optional', 'unk'), tup('int', 'str'),
             tup('int', nat('Sequence', 'unk')), tup('int', nat('Sequence', 'int')), cmp_('S1', 'int'), cmp_('S1', nat('Sequence', 'unk')), cmp_('S1', nat('Sequence', 'int')),
             cmp_('S2', 'int', nat('Sequence', 'unk')), cmp_('S2', 'int', nat('Sequence', 'str')), cmp_('S2', nat('Sequence', 'unk'), 'int'), cmp_('S2', nat('Optional', 'unk'), nat('Sequence', 'int')),
             cmp_('S2', nat('Optional', 'int'), nat('Sequence', 'unk')), fn(['int'], 'int'), T.NAMED['nf1'], T.NAMED['nf1s'], T.NAMED['nf2'], T.NAMED['nf12'], fn(['int'], 'str'),
             cmp_('U1', 'int'), nat('Sequence', nat('Optional', 'unk')), nat('Sequence', nat('Optional', 'int'))]
    forms = [
        ('seq2', 2, lambda w: '[%s, %s]' % w, lambda t: nat('Sequence', t)),
        ('if', 2, lambda w: 'if(true, %s, %s)' % w, lambda t: t),
        ('seq-concat', 2, lambda w: '([%s] + [%s])' % w, lambda t: nat('Sequence', t)),
        ('seq3', 3, lambda w: '[%s, %s, %s]' % w, lambda t: nat('Sequence', t)),
        ('push', 2, lambda w: '[%s].push(%s)' % w, lambda t: nat('Sequence', t)),
        ('map-set', 2, lambda w: 'mapping<int>().set(1, %s).set(2, %s)' % w, lambda t: nat('Mapping', 'int', t)),
    ]
    out = []
    n = 0
    for fname, k, mk, wrap in forms:
        for combo in itertools.product(parts, repeat=k):
            if k == 3 and (tier == 'quick' or len(set(combo)) == 3) and not (len(set(combo)) <= 2 and tier != 'quick'):
                if tier == 'quick':
                    continue
            ws = tuple(witness(p) for p in combo)
            if any(w is None for w in ws):
                continue
            # a named-function type is only identical to itself; different callables have no common type
            cur = combo[0]
            for p in combo[1:]:
                cur = T.lub_c(cur, p) if cur not in (None, T.UNSPEC) else cur
            if cur == T.UNSPEC:
                continue
            n += 1
            expr = mk(ws)
            probes = []
            ok = cur is not None
            if ok:
                rt = wrap(cur)
                if writable(rt) and not any(isinstance(p, tuple) and p[0] == 'named' for p in combo):
                    probes.append(('let q%d: %s = %s;' % (n, render(rt), expr), True, render(rt)))
                    for alt in T.leaf_flips(rt)[:4]:
                        probes.append(('let q%d: %s = %s;' % (n, render(alt), expr), False, render(alt)))
            out.append(('inferred|%s|%s' % (fname, ' ; '.join(render(p) for p in combo)), 'let c%d = %s;' % (n, expr), ok, probes))
    return out


# ----------------------------------------------------------------------------- D. calls through function values
def call_cases(tier):
    callees = [fn([], 'int'), fn(['int'], 'int'), fn(['str'], 'int'), fn(['int', 'int'], 'int'), fn(['int', 'str'], 'int'), fn([nat('Sequence', 'int')], 'int'),
               fn([nat('Optional', 'int')], 'str'), fn([fn(['int'], 'int')], 'int')] + list(T.NAMED.values())
    pool = ['int', 'str', 'unk', nat('Sequence', 'int'), nat('Sequence', 'unk'), nat('Optional', 'unk'), fn(['int'], 'int'), T.NAMED['nf12']]
    if tier != 'quick':
        pool += ['float', nat('Sequence', 'str'), nat('Optional', 'int'), T.NAMED['nf2'], fn(['str'], 'int'), tup('int', 'int')]
    out = []
    n = 0
    for F in callees:
        lo, hi = T.arities(F)
        for k in range(0, 4):
            for args in itertools.product(pool, repeat=k):
                if k == 3 and (tier == 'quick' or hi < 2) and args != (pool[0],) * 3:
                    continue
                ok = lo <= k <= hi and all(assignable(p, a) for p, a in zip(T.fparams(F), args))
                ws = ', '.join(witness(a) for a in args)
                n += 1
                forms = []
                if F[0] == 'fn':
                    forms.append(('param', 'fn hc%d(h: %s)->%s{ h(%s) }' % (n, render(F), render(T.fret(F)), ws)))
                    forms.append(('let-lambda', 'let lc%d = %s; let cc%d = lc%d(%s);' % (n, witness(F), n, n, ws)))
                    forms.append(('element', 'let ce%d = [%s][0](%s);' % (n, witness(F), ws)))
                    forms.append(('immediate', 'let ci%d = (%s)(%s);' % (n, witness(F), ws)))
                    forms.append(('field', 'struct HC%d(run: %s) fn hf%d(b: HC%d)->%s{ b::run(%s) }' % (n, render(F), n, n, render(T.fret(F)), ws)))
                else:
                    forms.append(('named-alias', 'let ga%d = %s; let ca%d = ga%d(%s);' % (n, witness(F), n, n, ws)))
                    forms.append(('named-element', 'let cn%d = [%s][0](%s);' % (n, witness(F), ws)))
                    forms.append(('named-direct', 'let cd%d = %s(%s);' % (n, witness(F), ws)))
                for fname, text in forms:
                    out.append(('call|%s|%s (%s)' % (fname, render(F) + ('' if F[0] == 'fn' else '#opt%d' % F[2]), ' ; '.join(render(a) for a in args)), text, ok, []))
    return out


# ----------------------------------------------------------------------------- E. compound construction
def construct_cases(tier):
    parts = ['int', 'str', 'unk', nat('Sequence', 'int'), nat('Sequence', 'unk'), nat('Sequence', 'str'), nat('Optional', 'int'), nat('Optional', 'unk'), tup('int', 'str'),
             cmp_('S1', 'int'), cmp_('S1', nat('Sequence', 'unk')), cmp_('S1', nat('Sequence', 'int')), fn(['int'], 'int'), T.NAMED['nf1'], T.NAMED['nf1s']]
    out = []
    n = 0
    # D<T>(a: T, b: T): both fields bind the same parameter
    for a, b in itertools.product(parts, repeat=2):
        cur = T.lub_c(a, b)
        if cur == T.UNSPEC:
            continue
        n += 1
        expr = 'DD(%s, %s)' % (witness(a), witness(b))
        probes = []
        if cur is not None and writable(cur) and not any(isinstance(p, tuple) and p[0] == 'named' for p in (a, b)):
            rt = cmp_('DD', cur)
            probes.append(('let qd%d: %s = %s;' % (n, render(rt), expr), True, render(rt)))
            for alt in T.leaf_flips(rt)[:3]:
                probes.append(('let qd%d: %s = %s;' % (n, render(alt), expr), False, render(alt)))
        out.append(('construct|DD|%s ; %s' % (render(a), render(b)), 'let cd%d = %s;' % (n, expr), cur is not None, probes))
        # union with a repeated parameter through two variants in one sequence literal
        n += 1
        expr = '[UU::l(%s), UU::r(%s)]' % (witness(a), witness(b))
        probes = []
        if cur is not None and writable(cur) and not any(isinstance(p, tuple) and p[0] == 'named' for p in (a, b)):
            rt = nat('Sequence', cmp_('UU', cur))
            probes.append(('let qu%d: %s = %s;' % (n, render(rt), expr), True, render(rt)))
            for alt in T.leaf_flips(rt)[:3]:
                probes.append(('let qu%d: %s = %s;' % (n, render(alt), expr), False, render(alt)))
        out.append(('construct|UU|%s ; %s' % (render(a), render(b)), 'let cu%d = %s;' % (n, expr), cur is not None, probes))
    # field count
    for k in range(0, 4):
        n += 1
        out.append(('construct|S2-arity|%d' % k, 'let ck%d = S2(%s);' % (n, ', '.join(['1'] * k)), k == 2, []))
        n += 1
        out.append(('construct|U1-arity|%d' % k, 'let ck%d = U1::v(%s);' % (n, ', '.join(['1'] * k)), k == 1, []))
    # a compound is its declaration, not its name
    same = [
        ('inner-where-outer-required', 'struct PA(a: int) fn takea(p: PA)->int{ p::a } fn hosta()->int{ struct PA(a: str) takea(PA("s")) }', False),
        ('outer-where-outer-required', 'struct PB(a: int) fn takeb(p: PB)->int{ p::a } fn hostb()->int{ takeb(PB(1)) }', True),
        ('inner-and-outer-in-one-literal', 'struct PC(a: int) fn mkc()->PC{ PC(1) } fn hostc()->int{ struct PC(a: str) [mkc(), PC("s")].len() }', False),
        ('inner-returned-as-outer', 'struct PD(a: int) fn hostd()->PD{ struct PD(a: str) PD("s") }', None),
        ('same-shape-different-name', 'struct PE(a: int) struct PF(a: int) fn takee(p: PE)->int{ p::a } let ce = takee(PF(1));', False),
        ('union-vs-struct-same-fields', 'struct PG(a: int) union PH(a: int) fn takeg(p: PG)->int{ p::a } let cg = takeg(PH::a(1));', False),
    ]
    # self-referential compounds whose self-reference permutes the generic parameters
    alt = 'struct Alt<A, B>(head: A, rest: Optional<Alt<B, A>>)\nunion Zig<A, B>(stop: A, go: Zig<B, A>)\n'
    rec = [
        ('alt-1', 'let l = Alt(1, none());', True), ('alt-2', 'let l = Alt(1, some(Alt("s", none())));', True),
        ('alt-3', 'let l = Alt(1, some(Alt("s", some(Alt(2, none())))));', True),
        ('alt-3-wrong-level3', 'let l = Alt(1, some(Alt("s", some(Alt("t", none())))));', False),
        ('alt-4', 'let l = Alt(1, some(Alt("s", some(Alt(2, some(Alt("u", none())))))));', True),
        ('alt-4-wrong-level4', 'let l = Alt(1, some(Alt("s", some(Alt(2, some(Alt(3, none())))))));', False),
        ('alt-declared', 'let l: Alt<int, str> = Alt(1, some(Alt("s", some(Alt(2, none())))));', True),
        ('alt-declared-swapped', 'let l: Alt<str, int> = Alt(1, some(Alt("s", none())));', False),
        ('alt-rest-type', 'fn f(l: Alt<int, str>)->Optional<Alt<str, int>>{ l::rest }', True),
        ('alt-rest-type-wrong', 'fn f(l: Alt<int, str>)->Optional<Alt<int, str>>{ l::rest }', False),
        ('alt-rest-type-wrong2', 'fn f(l: Alt<int, str>)->Optional<Alt<str, str>>{ l::rest }', False),
        ('alt-rest-head', 'fn f(l: Alt<int, str>)->str{ l::rest.value()::head }', True),
        ('alt-rest-head-wrong', 'fn f(l: Alt<int, str>)->int{ l::rest.value()::head }', False),
        ('alt-rest-rest-head', 'fn f(l: Alt<int, str>)->int{ l::rest.value()::rest.value()::head }', True),
        ('alt-rest-rest-head-wrong', 'fn f(l: Alt<int, str>)->str{ l::rest.value()::rest.value()::head }', False),
        ('zig-2', 'let z: Zig<int, str> = Zig::go(Zig::stop("s"));', True),
        ('zig-2-wrong', 'let z: Zig<int, str> = Zig::go(Zig::stop(1));', False),
        ('zig-go-type', 'fn f(z: Zig<int, str>)->Optional<Zig<str, int>>{ z?:go }', True),
        ('zig-go-type-wrong', 'fn f(z: Zig<int, str>)->Optional<Zig<int, str>>{ z?:go }', False),
        ('zig-go-go-stop', 'fn f(z: Zig<int, str>)->int{ z!:go!:go!:stop }', True),
        ('zig-go-stop-wrong', 'fn f(z: Zig<int, str>)->int{ z!:go!:stop }', False),
    ]
    for i, (label, text, ok) in enumerate(rec):
        uniq = text.replace('let l', 'let l%d' % i).replace('let z', 'let z%d' % i).replace('fn f(', 'fn frec%d(' % i)
        out.append(('construct|recursive|%s' % label, uniq, ok, []))
    for label, text, ok in same:
        if ok is None:
            continue
        out.append(('construct|same-name|%s' % label, text, ok, []))
    return out


# ----------------------------------------------------------------------------- F. generic calls from inside a generic function
def host_cases(tier):
    """the caller's own type parameter H is an opaque type of its own, whatever it is called: calls of generic functions whose
    parameters have the same or another name, results bound to declared types"""
    HOST = cmp_('HostT')
    callees = [
        ('hq_id', ['T'], [('var', 'T')], ('var', 'T')),
        ('hq_first', ['T'], [('var', 'T'), ('var', 'T')], ('var', 'T')),
        ('hq_el', ['T'], [nat('Sequence', ('var', 'T'))], ('var', 'T')),
        ('hq_wrap', ['T'], [('var', 'T')], nat('Sequence', ('var', 'T'))),
        ('hq_pair', ['T', 'U'], [('var', 'T'), ('var', 'U')], tup(('var', 'U'), ('var', 'T'))),
        ('hq_app', ['T', 'U'], [fn([('var', 'T')], ('var', 'U')), ('var', 'T')], ('var', 'U')),
        ('hq_mk', ['T'], [('var', 'T')], fn([('var', 'T')], ('var', 'T'))),
        ('hq_push', ['T'], [nat('Stack', ('var', 'T')), ('var', 'T')], nat('Stack', ('var', 'T'))),
    ]
    decls = ''.join('fn %s<%s>(%s)->%s{ error("never run") }\n' % (n, ', '.join(g), ', '.join('a%d: %s' % (i, render(p)) for i, p in enumerate(ps)), render(r)) for n, g, ps, r in callees)
    # values available inside the host, with their types
    avail = [('x', HOST), ('s', nat('Sequence', HOST)), ('k', nat('Stack', HOST)), ('f', fn([HOST], 'int')), ('1', 'int'), ('[1]', nat('Sequence', 'int')), ('"a"', 'str'),
             ('stack().push(1)', nat('Stack', 'int')), ('(p0: int)->{ "s" }', fn(['int'], 'str'))]
    targets = [HOST, 'int', 'str', nat('Sequence', HOST), nat('Sequence', 'int'), nat('Stack', HOST), tup('int', HOST), tup(HOST, 'int'), fn([HOST], HOST), fn(['int'], 'int')]
    out = []
    n = 0
    for hname in ('T', 'U', 'V'):
        def rr(t):
            return render(t).replace('HostT', hname)
        for cname, gens, params, ret in callees:
            for args in itertools.product(avail, repeat=len(params)):
                ok, b = T.bind_call(params, [a[1] for a in args])
                if ok == T.UNSPEC:
                    continue
                call = '%s(%s)' % (cname, ', '.join(a[0] for a in args))
                hdr = 'fn hh%%d<%s>(x: %s, s: Sequence<%s>, k: Stack<%s>, f: (%s)->(int))->int{ %%s 0 }' % (hname, hname, hname, hname, hname)
                n += 1
                out.append(('generic-host|%s|%s|%s(%s)' % (hname, cname, cname, ' ; '.join(rr(a[1]) for a in args)), hdr % (n, 'let v = %s;' % call), bool(ok), []))
                if ok and all(g in b for g in gens):
                    rt = T.subst(ret, b)
                    if not writable(rt):
                        continue
                    for tg in targets:
                        n += 1
                        exp = assignable(tg, rt)
                        out.append(('generic-host|%s|%s|%s(%s)|as %s' % (hname, cname, cname, ' ; '.join(rr(a[1]) for a in args), rr(tg)),
                                    hdr % (n, 'let v: %s = %s;' % (rr(tg), call)), exp, []))
        # calls through the host's own function-typed values: their parameter type H accepts H only
        hdr = 'fn hv%%d<%s>(x: %s, s: Sequence<%s>, k: Stack<%s>, f: (%s)->(int))->int{ %%s 0 }' % (hname, hname, hname, hname, hname)
        for aexpr, at in avail:
            for form, text in (('param', 'let v = f(%s);' % aexpr), ('lambda', 'let g = (q: %s)->{ q }; let v = g(%s);' % (hname, aexpr)),
                               ('nested-fn', 'fn g(q: %s)->%s{ q } let v = g(%s);' % (hname, hname, aexpr)),
                               ('seq-param', 'let g = (q: Sequence<%s>)->{ q }; let v = g([%s]);' % (hname, aexpr))):
                n += 1
                out.append(('generic-host|%s|value-call|%s(%s)' % (hname, form, rr(at)), hdr % (n, text), assignable(HOST, at), []))
    # two levels of generic functions: the outer and the inner type parameter are two different opaque types, whatever their names
    H1, H2 = cmp_('HostA'), cmp_('HostB')
    avail2 = [('z', H1), ('y', H2), ('1', 'int'), ('[z]', nat('Sequence', H1)), ('[y]', nat('Sequence', H2))]
    targets2 = [H1, H2, 'int', tup(H1, H2), tup(H2, H1), nat('Sequence', H1), nat('Sequence', H2), fn([H1], H1), fn([H2], H2)]
    for n1, n2 in (('T', 'U'), ('U', 'T'), ('A', 'T'), ('T', 'B'), ('A', 'B')):
        def rr2(t):
            return render(t).replace('HostA', n1).replace('HostB', n2)
        hdr2 = 'fn ho%%d<%s>(z: %s)->int{ fn hi<%s>(y: %s)->int{ %%s 0 } 0 }' % (n1, n1, n2, n2)
        for cname, gens, params, ret in callees:
            if cname in ('hq_app', 'hq_push'):
                continue
            for args in itertools.product(avail2, repeat=len(params)):
                ok, b = T.bind_call(params, [a[1] for a in args])
                if ok == T.UNSPEC:
                    continue
                call = '%s(%s)' % (cname, ', '.join(a[0] for a in args))
                n += 1
                out.append(('generic-host2|%s,%s|%s(%s)' % (n1, n2, cname, ' ; '.join(rr2(a[1]) for a in args)), hdr2 % (n, 'let v = %s;' % call), bool(ok), []))
                if ok and all(g in b for g in gens):
                    rt = T.subst(ret, b)
                    if not writable(rt):
                        continue
                    for tg in targets2:
                        n += 1
                        out.append(('generic-host2|%s,%s|%s(%s)|as %s' % (n1, n2, cname, ' ; '.join(rr2(a[1]) for a in args), rr2(tg)),
                                    hdr2 % (n, 'let v: %s = %s;' % (rr2(tg), call)), assignable(tg, rt), []))
        # the inner function's own parameter types and plain uses
        for aexpr, at in avail2:
            for tg in (H1, H2):
                n += 1
                out.append(('generic-host2|%s,%s|let %s <- %s' % (n1, n2, rr2(tg), rr2(at)), hdr2 % (n, 'let v: %s = %s;' % (rr2(tg), aexpr)), assignable(tg, at), []))
    return decls, out


# ----------------------------------------------------------------------------- run
def run(tier):
    rep = Report(PROP, tier, 'model_checking',
                 'reference = assignability / least-common-type / generic-binding relation written from the documented rules '
                 '(mc/model/types.py). A: complete (required, supplied) matrix over a universe closed under Sequence / Optional / Generator / '
                 'Stack / Mapping / Set / tuples / callables (written types, lambdas, named functions with optional parameters) / generic '
                 'structs and unions with 0-2 parameters / the bottom type, to depth 1 (quick) or 2 (thorough), in 10 syntactic positions '
                 'with a literal witness and 5 positions with a parameter of the supplied type; B: %d generic signatures x all argument '
                 'tuples over a pool, with result-type probes; C: 7 type-inferring forms x all part combinations, with probes; compile-only; '
                 'non-trivial = distinct programs' % len(GSIGS))
    req, sup = universe(tier)
    rep.bounds['required_types'] = len(req)
    rep.bounds['supplied_types'] = len(sup)
    # witness validation: each witness must compile on its own, and at its own type when that can be written
    wit = {}
    texts = []
    for i, s in enumerate(sup):
        w = witness(s)
        if w is None:
            continue
        wit[s] = w
        texts.append(('witness|%s' % render(s), 'let w%d = %s;' % (i, w), True))
        if writable(s) and s[0] != 'named':
            texts.append(('witness-typed|%s' % render(s), 'let wt%d: %s = %s;' % (i, render(s), w), True))
    cases = list(texts)
    n = 0
    for R in req:
        if isinstance(R, tuple) and R[0] == 'named':
            continue
        for S in sup:
            exp = assignable(R, S)
            n += 1
            if S in wit:
                for pos, text in positions_expr(n, R, wit[S]):
                    if tier == 'quick' and pos in ('method-arg', 'lambda-return') and (n % 3):
                        continue
                    cases.append(('assign|%s|%s <- %s' % (pos, render(R), render(S)), text, exp))
            if writable(S) and not (isinstance(S, tuple) and S[0] == 'named'):
                for pos, text in positions_param(n, R, S):
                    if tier == 'quick' and pos in ('p-field', 'p-in-seq') and (n % 3):
                        continue
                    cases.append(('assign|%s|%s <- %s' % (pos, render(R), render(S)), text, exp))
    rep.bounds['assignment_programs'] = len(cases)
    res = run_texts([c[1] for c in cases])
    bad_witness = set()
    for (label, text, exp), (kind, info) in zip(cases, res):
        rep.evaluations += 1
        rep.nontrivial.add(label)
        rep.states += 1
        rep.outcome('accepted' if kind == 'ok' else ('rejected' if kind == 'cerr' else kind))
        sig = 'C04|' + label
        if kind in ('panic', 'fatal', '?'):
            rep.fail(Failure(PROP, sig + '|' + kind, {'text': text}, 'accepted' if exp else 'a compilation error', '%s %s' % (kind, info), job_for(text)))
        elif (kind == 'ok') != exp:
            rep.fail(Failure(PROP, sig + ('|rejected-assignable' if exp else '|accepted-not-assignable'), {'text': text}, 'accepted' if exp else 'a compilation error',
                             'accepted' if kind == 'ok' else 'rejected: ' + info, job_for(text)))
    # B / C
    extra = [GD for GD in (''.join(gsig_decl(*g) for g in GSIGS) + 'struct DD<T>(a: T, b: T)\nunion UU<T>(l: T, r: T)\nstruct Alt<A, B>(head: A, rest: Optional<Alt<B, A>>)\nunion Zig<A, B>(stop: A, go: Zig<B, A>)\n',)]
    hdecls, hcases = host_cases(tier)
    extra[0] += hdecls
    for fam, cs in (('generic', generic_cases(tier)), ('inferred', inferred_cases(tier)), ('call', call_cases(tier)), ('construct', construct_cases(tier)), ('generic-host', hcases)):
        rep.bounds[fam + '_programs'] = len(cs)
        texts = []
        idx = []
        for ci, (label, text, ok, probes) in enumerate(cs):
            texts.append(text); idx.append((ci, None))
            for pi, (ptext, pok, pt) in enumerate(probes):
                texts.append(ptext); idx.append((ci, pi))
        res = []
        for part in pmap(_feed_with, [(extra[0], w) for w in chunks(texts, 250)]):
            res += part
        for (ci, pi), text, (kind, info) in zip(idx, texts, res):
            label, _, ok, probes = cs[ci]
            rep.evaluations += 1
            rep.transitions += 1
            exp = ok if pi is None else probes[pi][1]
            sig = 'C04|' + label + ('' if pi is None else '|probe:' + probes[pi][2])
            rep.nontrivial.add(sig)
            rep.outcome('accepted' if kind == 'ok' else ('rejected' if kind == 'cerr' else kind))
            job = {'id': 0, 'limits': {}, 'steps': [{'feed': SHADOW + T.DECLS + extra[0]}, {'feed': text}]}
            if kind in ('panic', 'fatal', '?'):
                rep.fail(Failure(PROP, sig + '|' + kind, {'text': text}, 'accepted' if exp else 'a compilation error', '%s %s' % (kind, info), job))
            elif (kind == 'ok') != exp:
                why = ('rejected-has-common-type' if exp else 'accepted-no-common-type') if pi is None else ('inferred-type-too-specific-or-wrong' if exp else 'inferred-type-not-least')
                rep.fail(Failure(PROP, sig + '|' + why, {'text': text}, 'accepted' if exp else 'a compilation error', 'accepted' if kind == 'ok' else 'rejected: ' + info, job))
    rep.sample(cases[len(cases) // 3][1])
    rep.sample(cases[2 * len(cases) // 3][1])
    rep.assumptions = ['programs are only compiled (the property is about acceptance); every program uses fresh names on a shared scope',
                       'a witness expression is validated on its own before it is used; supplied types without a witness are only supplied as parameters',
                       'distinct callables have no common type; a named function value is only identical to itself']
    return rep.finish()


def _feed_with(args):
    pre, texts = args
    job = {'id': 0, 'limits': {}, 'steps': [{'feed': SHADOW + T.DECLS + pre}] + [{'feed': t} for t in texts]}
    rep = run_job(job, timeout=60.0)
    if 'fatal' in rep:
        if len(texts) == 1:
            return [('fatal', rep['fatal'])]
        h = len(texts) // 2
        return _feed_with((pre, texts[:h])) + _feed_with((pre, texts[h:]))
    rs = rep['replies']
    if 'ok' not in rs[0]['v']:
        raise Machinery('declarations rejected: %r' % rs[0]['v'])
    out = []
    for r in rs[1:]:
        v = r['v']
        if 'ok' in v:
            out.append(('ok', ''))
        elif 'cerr' in v:
            out.append(('cerr', v['cerr']['class']))
        elif 'panic' in v:
            from ..core import norm_loc
            out.append(('panic', norm_loc(v['panic'].get('loc', '')) + ' ' + v['panic'].get('msg', '')[:100]))
        else:
            out.append(('?', repr(v)[:100]))
    return out


def replay(rec):
    from ..table import replay_table
    return replay_table(rec)
