"""C16 — generators denote fixed lazy streams.
Part A (E2): BFS over Generator<int> values; every adaptor on every state; every consumer on every edge, on the post-state and
again on the pre-state (so every generator value is consumed several times and must yield the same elements each time).
Part B (E1): laziness — pipelines over a ticking infinite source; the number of source elements evaluated is compared with
what a lazy reference pipeline (Python iterators) pulls, plus a constant look-ahead per adaptor."""
import itertools
from ..core import Report, Opt, Seq, Err, xint, Failure, run_units, pmap, chunks, Viol, Panic, Fatal, CErr, HostErr, veq, mk_unit_job
from ..bfs import Domain, explore, ERR

PROP = 'C16'
MAXLEN = 12
INFP = 64


class Fin(tuple):
    inf = False


class Inf(tuple):
    inf = True


def dedup(l):
    out = []
    for x in l:
        if x not in out:
            out.append(x)
    return out


PRELUDE = ('fn ids(s: Sequence<int>)->Sequence<int>{ s }\nfn inc(x: int)->int{ x + 1 }\nfn odd(x: int)->bool{ x % 2 == 1 }\n'
           'fn never(x: int)->bool{ false }\nfn lt4(x: int)->bool{ x < 4 }\nfn ge2(x: int)->bool{ x >= 2 }\n'
           'fn add2(a: int, b: int)->int{ a + b }\nfn eqmod2(a: int, b: int)->bool{ a % 2 == b % 2 }\n'
           'fn dbl(x: int)->int{ x * 2 }\nfn upto5(x: int)->Optional<int>{ if(x < 5, some(x + 1), none()) }\n'
           'fn tick(x: int)->int{ display(x) }\n')


class GenDomain(Domain):
    prop = PROP
    name = 'generator<int>'
    state_type = 'Generator<int>'
    prelude = PRELUDE
    dump = {'max_items': 30, 'repr': True}
    limits = {'search': 4000}

    def __init__(self, tier):
        self.tier = tier

    def inits(self):
        out = [
            ('[1..5]', '[1, 2, 3, 4, 5].to_generator()', Fin((1, 2, 3, 4, 5))),
            ('empty', 'ids([]).to_generator()', Fin(())),
            ('range(7)', 'range(7).to_generator()', Fin(range(7))),
            ('count()', 'count().to_generator()', Inf(range(INFP))),
            ('successors_until', 'successors_until(1, upto5)', Fin((1, 2, 3, 4, 5))),
        ]
        if self.tier != 'quick':
            out += [
                ('successors', 'successors(1, dbl)', Inf(2 ** i for i in range(INFP))),
                ('[2,2,1]', '[2, 2, 1].to_generator()', Fin((2, 2, 1))),
                ('[4]', '[4].to_generator()', Fin((4,))),
            ]
        return out

    def key(self, m):
        return ('inf' if m.inf else 'fin') + repr(tuple(m[:10]) if m.inf else tuple(m))

    def fingerprint(self, m, dumped):
        return getattr(dumped, 'repr', None)

    def ops(self, m, others):
        out = []
        l = list(m)
        C = Inf if m.inf else Fin

        def add(label, expr, post):
            if isinstance(post, (Fin, Inf)) and not post.inf and len(post) > MAXLEN:
                return
            if isinstance(post, Inf) and len(post) < 16:
                return  # the modelled prefix got too short to be observed reliably
            out.append((label, expr, post))

        add('map(inc)', 'S.map(inc)', C(x + 1 for x in l))
        add('filter(odd)', 'S.filter(odd)', C(x for x in l if x % 2 == 1))
        if not m.inf:
            add('filter(never)', 'S.filter(never)', Fin(()))
        for n in (0, 1, 2, 5):
            add('take(%d)' % n, 'S.take(%d)' % n, Fin(l[:n]))
            add('skip(%d)' % n, 'S.skip(%d)' % n, C(l[n:]))
        tw = list(itertools.takewhile(lambda x: x < 4, l))
        if not m.inf or len(tw) < len(l):
            add('take_while(lt4)', 'S.take_while(lt4)', Fin(tw))
        su = list(itertools.dropwhile(lambda x: not x >= 2, l))
        if not m.inf or su:
            add('skip_until(ge2)', 'S.skip_until(ge2)', C(su))
        acc = list(itertools.accumulate(l))
        add('aggregate(add2)', 'S.aggregate(add2)', C(acc) if l else ('MAYBE', Fin(())))
        add('aggregate(0,add2)', 'S.aggregate(0, add2)', C([0] + list(itertools.accumulate(l))) if not m.inf else Inf(([0] + acc)[:INFP]))
        if m.inf:
            # the copies of an infinite stream: the first one never ends (and nothing may be consumed up front)
            add('repeat(2)', 'S.repeat(2)', Inf(l))
            add('repeat()', 'S.repeat()', Inf(l))
        if not m.inf:
            add('repeat(2)', 'S.repeat(2)', Fin(l * 2))
            add('repeat(0)', 'S.repeat(0)', ('MAYBE', Fin(())))
            if l:
                add('repeat()', 'S.repeat()', Inf((l * INFP)[:INFP]))
            else:
                add('repeat()', 'S.repeat()', Fin(()))
            add('distinct', 'S.distinct()', Fin(dedup(l)))
        for oexpr, om in others:
            if m.inf:
                # an infinite generator followed by anything is the infinite generator
                add('S+%s' % self.key(om), 'S + %s' % oexpr, Inf(l))
                if not om.inf:
                    add('%s+S' % self.key(om), '%s + S' % oexpr, Inf((list(om) + l)[:INFP]))
            else:
                add('S+%s' % self.key(om), 'S + %s' % oexpr, (Inf((l + list(om))[:INFP]) if om.inf else Fin(l + list(om))))
                if not om.inf:
                    add('%s+S' % self.key(om), '%s + S' % oexpr, Fin(list(om) + l))
        # terminal (type-changing) adaptors: observed, not explored further
        p = l[:8]
        T = lambda v: ('TERMINAL', v)
        lim = '.take(8).to_array()' if m.inf else '.to_array()'
        out.append(('!enumerate', 'S.enumerate()' + lim, T(Seq(list(enumerate(p if m.inf else l))))))
        out.append(('!enumerate(1,2)', 'S.enumerate(1, 2)' + lim, T(Seq([(1 + 2 * i, x) for i, x in enumerate(p if m.inf else l)]))))
        for st, sp in ((-2, None), (-2, 1), (0, 1), (5, -1), (3, 0)):
            args = '%d' % st if sp is None else '%d, %d' % (st, sp)
            step = 1 if sp is None else sp
            out.append(('!enumerate(%s)' % args, 'S.enumerate(%s)' % args + lim, T(Seq([(st + step * i, x) for i, x in enumerate(p if m.inf else l)]))))
        out.append(('!flatten-empty-outer', '[S].to_generator().take(0).flatten().to_array()', T(Seq([]))))
        out.append(('!flatten-inner-empty', '[S.take(0), S.take(0)].to_generator().flatten().to_array()', T(Seq([]))))
        out.append(('!zip-count', 'S.zip(count().to_generator())' + lim, T(Seq([(x, i) for i, x in enumerate(p if m.inf else l)]))))
        for w in (1, 2, 3):
            src = l[:8 + w] if m.inf else l
            wins = [src[i:i + w] for i in range(len(src) - w + 1)]
            if m.inf:
                wins = wins[:8]
            out.append(('!windows(%d)' % w, 'S.windows(%d)' % w + lim, T(Seq([Seq(x) for x in wins]))))
        for c in (1, 2):
            src = l[:8 * c] if m.inf else l
            ch = [src[i:i + c] for i in range(0, len(src), c)]
            out.append(('!chunks(%d)' % c, 'S.chunks(%d)' % c + lim, T(Seq([Seq(x) for x in ch[:8]] if m.inf else [Seq(x) for x in ch]))))
        if not m.inf:
            groups = [list(g) for k, g in itertools.groupby(l, key=lambda x: x % 2)]
            out.append(('!group', 'S.group(eqmod2).to_array()', T(Seq([Seq(g) for g in groups]))))
            seen = {}
            wc0, wc1 = [], []
            for x in l:
                wc0.append((x, seen.get(x, 0)))
                seen[x] = seen.get(x, 0) + 1
                wc1.append((x, seen[x]))
            out.append(('!with_count', 'S.with_count().to_array()', T(('PRED', _OneOf((Seq(wc0), Seq(wc1)))))))
            out.append(('!flatten', '[S, S.map(inc)].to_generator().flatten().to_array()', T(Seq(l + [x + 1 for x in l]))))
            out.append(('!flatten-seq', '[S.take(1), S].flatten().to_array()', T(Seq(l[:1] + l))))
            out.append(('!product', 'S.take(2).product([7, 8].to_generator()).to_array()', T(Seq([(a, b) for a in l[:2] for b in (7, 8)]))))
            out.append(('!unzip', 'S.zip(S.map(inc)).unzip()::item1.to_array()', T(Seq([x + 1 for x in l]))))
        else:
            out.append(('!product-inf', '[7, 8].to_generator().product(S).take(3).to_array()', T(Seq([(7, l[0]), (7, l[1]), (7, l[2])]))))
        return out

    def observers(self, m):
        if isinstance(m, tuple) and len(m) == 2 and m[0] == 'TERMINAL':
            return [('value', 'S', m[1], None)]
        l = list(m)
        obs = []
        if m.inf:
            obs.append(('prefix-twice', '(S.take(8).to_array(), S.take(8).to_array())', (Seq(l[:8]), Seq(l[:8])), None))
            for i in (0, 1, 9):
                obs.append(('get(%d)' % i, 'S.get(%d)' % i, l[i], None))
            obs.append(('get(-1)', 'S.get(-1)', ERR, None))
            odd = [x for x in l if x % 2 == 1]
            if len(odd) >= 2:
                obs.append(('nth(1,odd)', 'S.nth(1, odd)', Opt(odd[1], True), None))
                obs.append(('first(odd)', 'S.first(odd)', Opt(odd[0], True), None))
            return obs
        n = len(l)
        obs.append(('to_array-twice', '(S.to_array(), S.to_array())', (Seq(l), Seq(l)), None))
        obs.append(('len', 'S.len()', n, None))
        for i in sorted(set([0, 1, n - 1, n])):
            if i < 0:
                continue
            obs.append(('get(%d)' % i, 'S.get(%d)' % i, l[i] if i < n else ERR, None))
        obs.append(('get(-1)', 'S.get(-1)', ERR, None))
        odd = [x for x in l if x % 2 == 1]
        obs.append(('nth(1,odd)', 'S.nth(1, odd)', Opt(odd[1], True) if len(odd) > 1 else Opt(None, False), None))
        obs.append(('first(odd)', 'S.first(odd)', Opt(odd[0], True) if odd else Opt(None, False), None))
        obs.append(('last', 'S.last()', l[-1] if l else ERR, None))
        obs.append(('reduce', 'S.reduce(add2)', sum(l) if l else ERR, None))
        obs.append(('reduce0', 'S.reduce(0, add2)', sum(l), None))
        obs.append(('any-all-count', '(S.any(odd), S.all(odd), S.count(odd))', (any(x % 2 == 1 for x in l), all(x % 2 == 1 for x in l), len(odd)), None))
        obs.append(('contains', '(S.contains(2), S.contains(-77))', (2 in l, -77 in l), None))
        obs.append(('min-max', '(S.min(), S.max())', (min(l), max(l)) if l else ERR, None))
        obs.append(('join', 'S.map((x: int)->{ to_str(x) }).join(",")', ','.join(str(x) for x in l), None))
        return obs


class _OneOf:
    def __init__(self, alts):
        self.alts = alts
        self.__name__ = 'one of %r' % (alts,)

    def __call__(self, v):
        return any(veq(v, a) for a in self.alts)


def gen_others(states):
    out, seen = [], set()
    for e, m in states:
        if isinstance(m, (Fin, Inf)):
            k = (m.inf, tuple(m[:6]))
            if k not in seen and (m.inf or len(m) <= 3):
                seen.add(k)
                out.append((e, m))
    fin = [x for x in out if not x[1].inf][:4]
    inf = [x for x in out if x[1].inf][:1]
    return fin + inf


# ----------------------------------------------------------------------------- laziness
class Counter:
    def __init__(self):
        self.pulled = 0

    def __iter__(self):
        return self

    def __next__(self):
        v = self.pulled
        if v > 300:
            raise RuntimeError('reference pipeline does not terminate on an infinite source')
        self.pulled += 1
        return v


def windows(it, w):
    buf = []
    for x in it:
        buf.append(x)
        if len(buf) == w:
            yield tuple(buf)
            buf.pop(0)


def chunks_(it, c):
    buf = []
    for x in it:
        buf.append(x)
        if len(buf) == c:
            yield tuple(buf)
            buf = []
    if buf:
        yield tuple(buf)


# name, xray suffix, python transformer, look-ahead slack, keeps int elements
ADAPTORS = [
    ('map', '.map(inc)', lambda it: (x + 1 for x in it), 1, True),
    ('filter', '.filter(odd)', lambda it: (x for x in it if x % 2 == 1), 1, True),
    ('take5', '.take(5)', lambda it: itertools.islice(it, 5), 1, True),
    ('skip2', '.skip(2)', lambda it: itertools.islice(it, 2, None), 1, True),
    ('take_while', '.take_while((x: int)->{ x < 6 })', lambda it: itertools.takewhile(lambda x: x < 6, it), 1, True),
    ('skip_until', '.skip_until(ge2)', lambda it: itertools.dropwhile(lambda x: not x >= 2, it), 1, True),
    ('aggregate', '.aggregate(add2)', lambda it: itertools.accumulate(it), 1, True),
    ('aggregate0', '.aggregate(0, add2)', lambda it: itertools.accumulate(it, initial=0), 1, True),
    ('distinct', '.distinct()', lambda it: it, 1, True),
    ('enumerate', '.enumerate()', lambda it: enumerate(it), 1, False),
    ('zip', '.zip(count().to_generator())', lambda it: zip(it, itertools.count()), 1, False),
    ('windows2', '.windows(2)', lambda it: windows(it, 2), 2, False),
    ('windows3', '.windows(3)', lambda it: windows(it, 3), 3, False),
    ('chunks2', '.chunks(2)', lambda it: chunks_(it, 2), 2, False),
    ('group', '.group(eqmod2)', lambda it: (tuple(g) for k, g in itertools.groupby(it, key=lambda x: x % 2)), 2, False),
    ('with_count', '.with_count()', lambda it: ((x, 0) for x in it), 1, False),
]
CONSUMERS = [
    ('take3', '.take(3).to_array()', lambda it: list(itertools.islice(it, 3))),
    ('get2', '.get(2)', lambda it: list(itertools.islice(it, 3))),
    ('get0', '.get(0)', lambda it: list(itertools.islice(it, 1))),
]


def slice_cases(tier):
    """slice algebra: every chain of take / skip (which the implementation fuses into one slice node) with every argument, over a
    finite, an infinite, an aggregated and a chained source, possibly with one non-slice adaptor in the middle"""
    srcs = [('fin10', '[0, 1, 2, 3, 4, 5, 6, 7, 8, 9].to_generator()', list(range(10)), False),
            ('count', 'count().to_generator()', list(range(64)), True),
            ('agg', '[1, 2, 3, 4, 5, 6, 7, 8].to_generator().aggregate(add2)', list(itertools.accumulate(range(1, 9))), False),
            ('chain', '([0, 1, 2].to_generator() + count().to_generator().map(dbl))', [0, 1, 2] + [2 * i for i in range(60)], True)]
    args = (0, 1, 2, 3, 5, 8, 12)
    ops = [('take', n) for n in args] + [('skip', n) for n in args]
    mids = [None, ('map(inc)', '.map(inc)', lambda l: [x + 1 for x in l])]
    depth = 3 if tier == 'quick' else 4
    out = []
    for name, expr, l0, inf in srcs:
        for k in range(1, depth + 1):
            for chain in itertools.product(ops, repeat=k):
                if tier == 'quick' and k == 3 and len({o for o, n in chain}) == 1:
                    continue
                for mid in (mids if 2 <= k <= 3 else [None]):
                    l, e, is_inf = list(l0), expr, inf
                    for i, (o, n) in enumerate(chain):
                        if mid and i == k - 1:
                            e += mid[1]; l = mid[2](l)
                        e += '.%s(%d)' % (o, n)
                        if o == 'take':
                            l = l[:n]; is_inf = False
                        else:
                            l = l[n:]
                    if is_inf:
                        exp = (Seq(l[:12]), Seq(l[:12]))
                        src = 'let p = %s; (p.take(12).to_array(), p.take(12).to_array())' % e
                    else:
                        exp = (Seq(l), Seq(l), len(l))
                        src = 'let p = %s; (p.to_array(), p.to_array(), p.len())' % e
                    out.append({'sig': 'C16|slices|%s|%s%s' % (name, '.'.join('%s%d' % c for c in chain), ('|' + mid[0]) if mid else ''), 'src': src, 'exp': exp})
    return out


def lazy_cases(tier):
    out = []
    ints = [a for a in ADAPTORS if a[4]]
    pipes = [[a] for a in ADAPTORS] + [[a, b] for a in ints for b in ADAPTORS]
    if tier != 'quick':
        pipes += [[a, b, c] for a in ints for b in ints for c in ADAPTORS]
    for pipe in pipes:
        for cn, csuffix, cfun in CONSUMERS:
            src = Counter()
            it = iter(src)
            for a in pipe:
                it = a[2](it)
            try:
                cfun(it)
            except Exception:
                continue
            need = src.pulled
            slack = sum(a[3] for a in pipe) + 1
            expr = 'count().to_generator().map(tick)' + ''.join(a[1] for a in pipe) + csuffix
            out.append({'name': '+'.join(a[0] for a in pipe) + '|' + cn, 'expr': expr, 'need': need, 'slack': slack})
    # copies of an infinite stream: the first copy never ends and nothing is consumed before it is asked for
    for rn, rsuffix in (('repeat3', '.repeat(3)'), ('repeat-inf', '.repeat()')):
        for a in [None] + [x for x in ADAPTORS if x[4] and x[0] not in ('take5', 'take_while')]:
            for cn, csuffix, cfun in CONSUMERS:
                src = Counter()
                it = iter(src)
                if a is not None:
                    it = a[2](it)
                cfun(it)
                out.append({'name': (a[0] + '+' if a else '') + rn + '|' + cn, 'expr': 'count().to_generator().map(tick)' + (a[1] if a else '') + rsuffix + csuffix,
                            'need': src.pulled, 'slack': (a[3] if a else 0) + 2})
    return out


def _lazy_chunk(cs):
    units = [('c%d' % i, 'let c%d = ()->{ %s };' % (i, c['expr'])) for i, c in enumerate(cs)]
    outs = run_units(units, prelude=[PRELUDE], limits={'search': 500}, dump={'max_items': 10}, timeout=15.0)
    res = []
    for c, o in zip(cs, outs):
        lines = [x for x in o.out.split('\n') if x != '']
        res.append((repr(o.v), len(lines), lines[:40], isinstance(o.v, (Panic, Fatal, CErr, HostErr, Viol))))
    return res


def run(tier):
    rep = Report(PROP, tier, 'model_checking',
                 'part A: explicit-state BFS over Generator<int> values (finite, empty, infinite sources) with every adaptor and every '
                 'consumer on each edge, consumers run on the post-state and again on the pre-state, compared with Python lists / '
                 'iterators; part C: every chain of <=3 (thorough 4) take / skip steps with 7 arguments each over a finite, an infinite, an aggregated and a chained source (with a map before the last step as a second variant), consumed twice; part B: every pipeline of <=2 (thorough 3) adaptors over a ticking infinite source x consumers: evaluated '
                 'source elements <= what a lazy reference pipeline pulls + a constant look-ahead per adaptor; non-trivial = edges '
                 'whose post-state differs + distinct pipelines')
    dom = GenDomain(tier)
    depth = 2 if tier == 'quick' else 4
    rep.bounds['depth'] = depth
    explore(rep, dom, max_depth=depth, binary_pool=gen_others, max_states=(20000 if tier == 'quick' else 300000))
    cases = lazy_cases(tier)
    rep.bounds['lazy_pipelines'] = len(cases)
    idx = 0
    for res in pmap(_lazy_chunk, chunks(cases, 100)):
        for vr, nlines, lines, bad in res:
            c = cases[idx]; idx += 1
            rep.evaluations += 1
            rep.transitions += 1
            rep.nontrivial_count += 1
            job = mk_unit_job([PRELUDE], [('c0', 'let c0 = ()->{ %s };' % c['expr'])], {'search': 500}, None, {'max_items': 10})
            if bad:
                rep.outcome('lazy-crash')
                rep.fail(Failure(PROP, 'C16|lazy|%s|no-result' % c['name'], c, 'a value after pulling about %d source elements' % c['need'], vr, job))
                continue
            rep.outcome('lazy-ok')
            if lines != [str(i) for i in range(nlines)][:40]:
                rep.fail(Failure(PROP, 'C16|lazy|%s|source-order' % c['name'], c, 'source elements evaluated in order, once each', lines, job))
            elif nlines > c['need'] + c['slack']:
                rep.fail(Failure(PROP, 'C16|lazy|%s|over-evaluation' % c['name'], c,
                                 '<= %d source elements (lazy reference pulls %d, look-ahead %d)' % (c['need'] + c['slack'], c['need'], c['slack']), nlines, job))
    from ..table import run_table
    sl = slice_cases(tier)
    rep.bounds['slice_chains'] = len(sl)
    run_table(rep, sl, {'prelude': [PRELUDE], 'limits': {'search': 2000}, 'dump': {'max_items': 70}}, chunk=300)
    rep.sample({'edge': '[1,2,3,4,5].to_generator() --skip(2)--> then --take(5)--> [3,4,5]'})
    rep.sample({'lazy': cases[0]})
    rep.sample({'lazy': cases[len(cases) // 2]})
    rep.assumptions = ['Python lists / itertools are the reference; infinite generators are modelled by their first %d elements' % INFP,
                       'with_count may count from 0 (book wording) or from 1', 'aggregate without initial value on an empty generator, '
                       'repeat(0): unspecified, an error value or the empty stream are accepted',
                       'look-ahead slack per adaptor: window width / chunk size / 2 for group / 1 otherwise, +1 for the consumer']
    return rep.finish()


def replay(rec):
    from ..table import replay_table
    return replay_table(rec)
