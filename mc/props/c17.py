"""C17 — mappings and sets are finite maps under any consistent hash.  E2 to a fixpoint: the reachable abstract state space
over a small key universe is finite, so every history of any length is a path in the explored graph."""
import itertools
from ..core import Report, Opt, Seq, Err
from ..bfs import Domain, explore, ERR

PROP = 'C17'

# name, hash lambda, eq lambda, class function
CONFIGS = [
    ('identity', '(k: int)->{k}', '(a: int, b: int)->{a == b}', 'id'),
    ('const-hash', '(k: int)->{0}', '(a: int, b: int)->{a == b}', 'id'),
    ('mod3-eq', '(k: int)->{k % 3}', '(a: int, b: int)->{a % 3 == b % 3}', 'mod3'),
    ('mod2-hash', '(k: int)->{k % 2}', '(a: int, b: int)->{a == b}', 'id'),
    ('dynamic', None, None, 'id'),
    ('mod2-eq-const-hash', '(k: int)->{0}', '(a: int, b: int)->{a % 2 == b % 2}', 'mod2'),
    ('mod3-hash', '(k: int)->{k % 3}', '(a: int, b: int)->{a == b}', 'id'),
    ('extreme-hash', '(k: int)->{(k * 9223372036854775807) % 18446744073709551616}', '(a: int, b: int)->{a == b}', 'id'),
]


def cls(kind, k):
    return {'id': k, 'mod3': k % 3, 'mod2': k % 2}[kind]


class MapDomain(Domain):
    prop = PROP

    def __init__(self, cfg, nkeys):
        self.name, self.h, self.e, self.kind = cfg
        self.name = 'mapping/' + self.name
        self.keys_ = list(range(nkeys))
        self.vals = [10, 20]
        self.prelude = 'fn flip(v: int)->int{ 30 - v }\nfn ten(k: int)->int{ 10 }\nfn flip2(k: int, v: int)->int{ 30 - v }\nfn idm(m: Mapping<int, int>)->Mapping<int, int>{ m }\n'
        self.dump = {'max_items': 40}
        self.state_type = 'Mapping<int, int>'

    def ctor(self):
        return 'mapping<int>()' if self.h is None else 'mapping(%s, %s)' % (self.h, self.e)

    def build(self, m):
        e = self.ctor()
        for c, v in m:
            e += '.set(%d, %d)' % (self.rep(c), v)
        return 'idm(%s)' % e

    def rep(self, c):
        for k in self.keys_:
            if cls(self.kind, k) == c:
                return k

    def inits(self):
        # typed through idm: an empty mapping literal has an unknown value type
        return [('empty', 'idm(%s)' % self.ctor(), ())]

    def key(self, m):
        return '%s%r' % (self.name, m)

    def fingerprint(self, m, dumped):
        return tuple(getattr(dumped, 'buckets', None) or ())

    def _set(self, m, k, v, overwrite=True):
        d = dict(m)
        c = cls(self.kind, k)
        if c in d and not overwrite:
            return m
        d[c] = v
        return tuple(sorted(d.items()))

    def _del(self, m, k):
        d = dict(m)
        d.pop(cls(self.kind, k), None)
        return tuple(sorted(d.items()))

    def ops(self, m, others):
        out = []
        has = lambda k: cls(self.kind, k) in dict(m)
        for k in self.keys_:
            for v in self.vals:
                out.append(('set(%d,%d)' % (k, v), 'S.set(%d, %d)' % (k, v), self._set(m, k, v)))
                out.append(('set_default(%d,%d)' % (k, v), 'S.set_default(%d, %d)' % (k, v), self._set(m, k, v, False)))
            out.append(('pop(%d)' % k, 'S.pop(%d)' % k, self._del(m, k) if has(k) else ERR))
            out.append(('discard(%d)' % k, 'S.discard(%d)' % k, self._del(m, k)))
        out.append(('clear', 'S.clear()', ()))
        pairs = [((0, 10), (1, 20)), ((1, 10), (1, 20)), ((2, 20), (0, 20)), ((0, 20), (len(self.keys_) - 1, 10))]
        for (k1, v1), (k2, v2) in pairs:
            mp = self._set(self._set(m, k1, v1), k2, v2)
            out.append(('update-gen[(%d,%d),(%d,%d)]' % (k1, v1, k2, v2), 'S.update([(%d, %d), (%d, %d)].to_generator())' % (k1, v1, k2, v2), mp))
        for oexpr, om in others:
            mp = m
            for c, v in om:
                mp = self._set(mp, self.rep(c), v)
            out.append(('update-map%r' % (om,), 'S.update(%s)' % oexpr, mp))
        ks = [0, 1, 1]
        mp = m
        for k in ks:
            d = dict(mp)
            c = cls(self.kind, k)
            mp = self._set(mp, k, 30 - d[c] if c in d else 10)
        out.append(('update_from_keys[0,1,1]', 'S.update_from_keys([0, 1, 1], ten, flip2)', mp))
        out.append(('update_from_keys-gen[0,1,1]', 'S.update_from_keys([0, 1, 1].to_generator(), ten, flip2)', mp))
        out.append(('map_values(flip)', 'S.map_values(flip)', tuple((c, 30 - v) for c, v in m)))
        # terminal (observed, not explored further: values leave the finite universe)
        d = dict(m)
        cnt = dict(d)
        for k in (0, 0, 2):
            c = cls(self.kind, k)
            cnt[c] = cnt.get(c, 0) + 1
        out.append(('!update_counter[0,0,2]', 'S.update_counter([0, 0, 2].to_generator()).to_generator().to_array()', ('TERMINAL', tuple(sorted(cnt.items())))))
        return out

    def observers(self, m):
        if isinstance(m, tuple) and len(m) == 2 and m[0] == 'TERMINAL':
            return [('entries', 'S', Seq([(c, v) for c, v in m[1]]), 'entries')]
        d = dict(m)
        obs = [('len', 'S.len()', len(d), None)]
        for k in self.keys_:
            c = cls(self.kind, k)
            obs.append(('lookup(%d)' % k, 'S.lookup(%d)' % k, Opt(d[c], True) if c in d else Opt(None, False), None))
            obs.append(('contains(%d)' % k, 'S.contains(%d)' % k, c in d, None))
            obs.append(('get(%d)' % k, 'S.get(%d)' % k, d[c] if c in d else ERR, None))
            obs.append(('get-default(%d)' % k, 'S.get(%d, 99)' % k, d.get(c, 99), None))
        obs.append(('entries', 'S.to_generator().to_array()', Seq([(c, v) for c, v in sorted(d.items())]), 'entries'))
        obs.append(('keys', 'S.keys().to_array()', Seq(sorted(d.keys())), 'keys'))
        obs.append(('values', 'S.values().to_array()', Seq(sorted(d.values())), 'sorted'))
        fresh = self.build(m)
        obs.append(('eq-fresh', 'S == %s' % fresh, True, None))
        obs.append(('eq-fresh-rev', '%s == S' % fresh, True, None))
        obs.append(('hash-fresh', 'hash(S) == hash(%s)' % fresh, True, None))
        other = self.build(self._set(m, 0, 20 if d.get(cls(self.kind, 0)) != 20 else 10))
        obs.append(('ne-other', 'S == %s' % other, False, None))
        return obs

    def normalise(self, name, v):
        if not isinstance(v, Seq):
            return v
        if name == 'entries':
            return Seq(sorted((cls(self.kind, k), x) for k, x in v.items), v.ln, v.more)
        if name == 'keys':
            return Seq(sorted(cls(self.kind, k) for k in v.items), v.ln, v.more)
        if name == 'sorted':
            return Seq(sorted(v.items), v.ln, v.more)
        return v


def map_others(states):
    out = [(e, m) for e, m in states if isinstance(m, tuple) and len(m) <= 2 and not (m and m[0] == 'TERMINAL')]
    seen, res = set(), []
    for e, m in out:
        if m not in seen:
            seen.add(m)
            res.append((e, m))
    return res[:8]


class SetDomain(Domain):
    prop = PROP

    def __init__(self, cfg, nkeys):
        self.name, self.h, self.e, self.kind = cfg
        self.name = 'set/' + self.name
        self.keys_ = list(range(nkeys))
        self.dump = {'max_items': 40}
        self.prelude = ''
        self.state_type = 'Set<int>'

    def ctor(self):
        return 'set<int>()' if self.h is None else 'set(%s, %s)' % (self.h, self.e)

    def rep(self, c):
        for k in self.keys_:
            if cls(self.kind, k) == c:
                return k

    def build(self, m):
        e = self.ctor()
        for c in m:
            e += '.add(%d)' % self.rep(c)
        return e

    def inits(self):
        return [('empty', self.ctor(), ())]

    def key(self, m):
        return '%s%r' % (self.name, m)

    def fingerprint(self, m, dumped):
        return tuple(getattr(dumped, 'buckets', None) or ())

    def ops(self, m, others):
        s = set(m)
        T = lambda x: tuple(sorted(x))
        out = []
        for k in self.keys_:
            c = cls(self.kind, k)
            out.append(('add(%d)' % k, 'S.add(%d)' % k, T(s | {c})))
            out.append(('remove(%d)' % k, 'S.remove(%d)' % k, T(s - {c}) if c in s else ERR))
            out.append(('discard(%d)' % k, 'S.discard(%d)' % k, T(s - {c})))
        out.append(('clear', 'S.clear()', ()))
        out.append(('update[0,2]', 'S.update([0, 2])', T(s | {cls(self.kind, 0), cls(self.kind, 2)})))
        out.append(('update-gen[1,1]', 'S.update([1, 1].to_generator())', T(s | {cls(self.kind, 1)})))
        for oexpr, om in others:
            o = set(om)
            out.append(('|%r' % (om,), 'S | %s' % oexpr, T(s | o)))
            out.append(('&%r' % (om,), 'S & %s' % oexpr, T(s & o)))
            out.append(('-%r' % (om,), 'S - %s' % oexpr, T(s - o)))
            out.append(('^%r' % (om,), 'S ^ %s' % oexpr, T(s ^ o)))
            out.append(('rev-%r' % (om,), '%s - S' % oexpr, T(o - s)))
        return out

    def observers(self, m):
        s = set(m)
        obs = [('len', 'S.len()', len(s), None)]
        for k in self.keys_:
            obs.append(('contains(%d)' % k, 'S.contains(%d)' % k, cls(self.kind, k) in s, None))
        obs.append(('to_array', 'S.to_array()', Seq(sorted(s)), 'members'))
        obs.append(('to_generator', 'S.to_generator().to_array()', Seq(sorted(s)), 'members'))
        fresh = self.build(m)
        obs.append(('eq-fresh', 'S == %s' % fresh, True, None))
        obs.append(('hash-fresh', 'hash(S) == hash(%s)' % fresh, True, None))
        allc = sorted(set(cls(self.kind, k) for k in self.keys_))
        for fix in ((), (allc[0],), tuple(allc[:2]), tuple(allc)):
            f = set(fix)
            fe = self.build(fix)
            obs.append(('rel%r' % (fix,), '(S == %s, S <= %s, S < %s, S >= %s, S > %s, S.is_disjoint(%s))' % ((fe,) * 6),
                        (s == f, s <= f, s < f, s >= f, s > f, not (s & f)), None))
        return obs

    def normalise(self, name, v):
        if isinstance(v, Seq) and name == 'members':
            return Seq(sorted(cls(self.kind, k) for k in v.items), v.ln, v.more)
        return v


def set_others(states):
    seen, res = set(), []
    for e, m in states:
        if len(m) <= 2 and m not in seen:
            seen.add(m)
            res.append((e, m))
    return res[:7]


def run(tier):
    rep = Report(PROP, tier, 'model_checking',
                 'explicit-state BFS to a fixpoint over mapping / set values reachable from the empty collection through every '
                 'documented update over a small key universe, for hash functions from injective to constant and equalities coarser '
                 'than identity; state key = (abstract finite map over equivalence classes, multiset of bucket sizes); on every edge '
                 'the post-state and (again) the pre-state are observed with every lookup / membership / iteration / eq / hash / '
                 'subset observer and compared with an association-list model; non-trivial = edges whose post-state differs')
    if tier == 'quick':
        plan = [(MapDomain, CONFIGS[0], 3), (MapDomain, CONFIGS[1], 3), (MapDomain, CONFIGS[2], 4), (MapDomain, CONFIGS[4], 3),
                (SetDomain, CONFIGS[0], 4), (SetDomain, CONFIGS[1], 4), (SetDomain, CONFIGS[2], 4), (SetDomain, CONFIGS[4], 3)]
    else:
        plan = [(MapDomain, c, 4) for c in CONFIGS] + [(SetDomain, c, 5) for c in CONFIGS] + [(SetDomain, CONFIGS[0], 6), (MapDomain, CONFIGS[0], 5)]
    for D, cfg, nk in plan:
        dom = D(cfg, nk)
        explore(rep, dom, max_depth=40, binary_pool=map_others if D is MapDomain else set_others)
    # sets / mappings with the same elements compare equal whatever (consistent) hash function each was built with
    from ..table import run_table
    cross = []
    idcfgs = [c for c in CONFIGS if c[3] == 'id']
    nk = 3 if tier == 'quick' else 4
    subsets = [tuple(k for k in range(nk) if (mask >> k) & 1) for mask in range(1 << nk)]
    for ca, cb in itertools.product(idcfgs, repeat=2):
        if ca is cb:
            continue
        da, db = SetDomain(ca, nk), SetDomain(cb, nk)
        ma, mb = MapDomain(ca, nk), MapDomain(cb, nk)
        for sa, sb in itertools.product(subsets, repeat=2):
            if tier == 'quick' and (len(sa) + len(sb)) > 4:
                continue
            A, B = set(sa), set(sb)
            ea = da.ctor() + ''.join('.add(%d)' % k for k in sa)
            eb = db.ctor() + ''.join('.add(%d)' % k for k in reversed(sb))
            exp = (A == B, A != B, A <= B, A >= B, A < B, A > B, len(A | B), len(A & B), len(A - B), len(A ^ B))
            cross.append({'sig': 'C17|cross-hash|set|%s vs %s|%r %r' % (ca[0], cb[0], sa, sb),
                          'src': 'let a = %s; let b = %s; (a == b, a != b, a <= b, a >= b, lt(a, b), gt(a, b), (a | b).len(), (a & b).len(), (a - b).len(), (a ^ b).len())' % (ea, eb), 'exp': exp})
            fa = ma.ctor() + ''.join('.set(%d, %d)' % (k, 10 + k) for k in sa)
            fb = mb.ctor() + ''.join('.set(%d, %d)' % (k, 10 + k) for k in reversed(sb))
            cross.append({'sig': 'C17|cross-hash|mapping|%s vs %s|%r %r' % (ca[0], cb[0], sa, sb), 'src': 'let a = %s; let b = %s; (a == b, a != b)' % (fa, fb), 'exp': (A == B, A != B)})
    rep.bounds['cross_hash_cases'] = len(cross)
    run_table(rep, cross, {'prelude': []}, chunk=200)
    rep.sample({'domain': 'mapping/identity', 'edge': 'mapping(h, e).set(0, 10) --pop(0)--> {}', 'observers': 'len, lookup/contains/get for every key, entries, keys, values, eq/hash vs fresh'})
    rep.sample({'domain': 'set/mod3-eq', 'edge': 'set(h, e).add(1) --add(4)--> unchanged (4 is equivalent to 1)'})
    rep.assumptions = ['which of several equal keys a collection stores is unspecified: keys are compared through their equivalence class',
                       'iteration order is unspecified: sequences of entries are sorted before comparison',
                       'update_counter results are observed but not explored further (values leave the finite universe)']
    return rep.finish()


def replay(rec):
    from ..table import replay_table
    return replay_table(rec)
