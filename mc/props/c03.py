"""C03 — lexical scoping, closures, one-time defaults, forward gating, identifier injectivity.
E1 with the reference model mc/model/scope.py (persistent-environment evaluator):
 1. every declaration tree up to a size (lets, named functions, closure-returning functions, let-bound lambdas, parameters that
    shadow, defaults that print) with a maximal observation at every site (sum of every nameable int + a call of every nameable
    callable), each function value optionally transported through a container / builtin before it is called;
 2. capture matrix: a chain of d nested functions, a name declared before / after / as parameter at every level, the innermost
    function invoked directly, after escaping, through map, twice;
 3. defaults: creation context x number of creations x number of calls, output counted;
 4. recursion through captured names, closures created per iteration / per recursion level;
 5. forward declarations: every order of declaration / fulfilment / use, use by call, by value, through a dependent function,
    through a lambda, nested in function bodies;
 6. identifier spellings: distinct spellings in every declaration role never alias."""
import itertools
from ..core import Report, Failure, run_job, run_units, mk_unit_job, pmap, pmap_stream, chunks, decode, veq, Err, Viol, Panic, Fatal, CErr, HostErr
from ..model import scope as S

PROP = 'C03'
HELP = 'fn idt<T>(x: T)->T{ x }\n'

TRANSPORTS = {
    'direct': lambda f, t: f,
    'seq': lambda f, t: '[%s][0]' % f,
    'tuple': lambda f, t: '(%s, 0)::item0' % f,
    'optional': lambda f, t: 'some(%s).value()' % f,
    'if': lambda f, t: 'if(true, %s, %s)' % (f, f),
    'generic-id': lambda f, t: 'idt(%s)' % f,
    'alias': None,     # handled in the renderer: let-bound alias before the call
    'stack': lambda f, t: 'stack().push(%s).head()' % f,
    'mapping': lambda f, t: 'mapping<int>().set(0, %s)[0]' % f,
    'partial': lambda f, t: 'partial(%s)' % f,
}


# ----------------------------------------------------------------------------- 1. declaration trees
INT = 'int'


def fnt(args, ret, ndef=0):
    return ('fn', tuple(args), ret, ndef)


def observe(ss, anc):
    """sum of a fresh literal, every nameable int, and a call of every nameable callable that is not an enclosing function"""
    seen = set()
    parts = [('lit', None)]
    for name, t in ss:
        if name in seen:
            continue
        seen.add(name)
        if t == INT:
            parts.append(('var', name))
        elif name not in anc:
            variants = [len(t[1])] + ([len(t[1]) - 1] if t[3] else [])
            for k in variants:
                call = ('call', ('var', name), [('lit', None)] * k)
                if t[2] != INT:
                    call = ('call', call, [])
                parts.append(call)
    return ('sum', parts)


def gen_decls(budget, depth, ss, anc, path, vars_, lam_names):
    """yield (decls, budget_left, static_scope_after)"""
    yield [], budget, ss
    if budget <= 0:
        return
    idx = len(path)
    for d, b2, ss2 in gen_decl(budget, depth, ss, anc, path, vars_, lam_names):
        for rest, b3, ss3 in gen_decls(b2, depth, ss2, anc, path + 'x', vars_, lam_names):
            yield [d] + rest, b3, ss3


def gen_decl(budget, depth, ss, anc, path, vars_, lam_names):
    for name in vars_:
        yield ('let', name, observe(ss, anc)), budget - 1, [(name, INT)] + ss
    if depth <= 0:
        return
    fname = 'f' + str(len(path)) + '_' + str(sum(ord(c) for c in path) % 97) + ('n%d' % depth)
    psets = [[], [('a', INT, None)], [('b', INT, ('disp', observe(ss, anc)))]]
    for style in ('direct', 'closure'):
        for ps in psets:
            ret_t = INT if style == 'direct' else fnt([], INT)
            ft = fnt([INT] * len(ps), ret_t, 1 if ps and ps[0][2] is not None else 0)
            inner = [(p[0], INT) for p in ps] + [(fname, ft)] + ss
            for body, b2, ss_in in gen_decls(budget - 1, depth - 1, inner, anc | {fname}, path + 'f', vars_, lam_names):
                ret = observe(ss_in, anc | {fname})
                if style == 'closure':
                    ret = ('lam', [], [], ret)
                yield ('fn', fname, ps, ret_t if style == 'direct' else ('fn', [], INT), body, ret), b2, [(fname, ft)] + ss
    for lname in lam_names:
        for ps in ([], [('b', INT, None)]):
            lt = fnt([INT] * len(ps), INT)
            inner = [(p[0], INT) for p in ps] + ss
            for body, b2, ss_in in gen_decls(budget - 1, depth - 1, inner, anc, path + 'l', vars_, lam_names):
                ret = observe(ss_in, anc)
                yield ('let', lname, ('lam', ps, body, ret)), b2, [(lname, lt)] + ss


def number(x, ctr):
    """give every ('lit', None) a distinct value"""
    if isinstance(x, tuple):
        if len(x) == 2 and x[0] == 'lit' and x[1] is None:
            ctr[0] += 1
            return ('lit', 3 ** ctr[0])
        return tuple(number(y, ctr) for y in x)
    if isinstance(x, list):
        return [number(y, ctr) for y in x]
    return x


def tree_plans(tier):
    if tier == 'quick':
        return [(3, 2, ['a', 'b'], ['l'], False), (3, 3, ['a'], ['l'], False), (2, 2, ['a', 'b'], ['l'], True)]
    return [(4, 3, ['a', 'b'], ['l'], False), (5, 3, ['a'], [], False), (4, 4, ['a'], ['l'], False), (3, 3, ['a', 'b'], ['l', 'a'], True)]


def iter_trees(tier):
    """(program, rendered key, run_at_top_level); duplicates between plans are dropped (top-level plans come first so that they keep
    their flag)"""
    import hashlib
    seen = set()
    plans = sorted(tree_plans(tier), key=lambda p: not p[4])
    for budget, depth, vars_, lams, top in plans:
        for decls, b, ss in gen_decls(budget, depth, [], frozenset(), '', vars_, lams):
            if not decls:
                continue
            prog = decls + [('let', 'r', observe(ss, frozenset()))]
            prog = number(prog, [0])
            key = S.rdecls(prog)
            d = hashlib.sha1(key.encode()).digest()[:10]
            if d in seen:
                continue
            seen.add(d)
            yield prog, key, top


def _tree_worker(args):
    """reference evaluation, rendering through the transports, execution and comparison of one batch of trees; returns
    (evaluations, outcome counts, failures)"""
    import hashlib, collections
    batch, tier = args
    kinds = ['direct'] + [k for k in TRANSPORTS if k not in ('direct', 'alias')]
    wrapped, top = [], []
    for prog, key, at_top in batch:
        try:
            exp = S.run_ref(prog)
        except S.Budget:
            continue
        h = int(hashlib.sha1(key.encode()).hexdigest()[:8], 16)
        for ki, kind in enumerate(kinds):
            # every tree directly; quick: one further transport per tree (round robin); thorough: all for small trees, two for the rest
            if kind != 'direct':
                if tier == 'quick' and (h % (len(kinds) - 1)) != ki - 1:
                    continue
                if tier != 'quick' and len(key) > 400 and (h % (len(kinds) - 1)) not in (ki - 1, (ki + 2) % (len(kinds) - 1)):
                    continue
            src = transport_src(prog, kind)
            sig = 'tree|%s|%s' % (kind, hashlib.sha1(key.encode()).hexdigest()[:14])
            wrapped.append((sig, src, exp))
            if at_top:
                top.append(('tree-top|%s|%s' % (kind, hashlib.sha1(key.encode()).hexdigest()[:14]), src, exp))
    res_w = []
    for w in chunks([x[1] for x in wrapped], 120):
        res_w += _run_wrapped(w)
    res_t = _run_programs([(x[1], None) for x in top]) if top else []
    counts = collections.Counter()
    fails = []
    sigs = []
    for group, res, is_wrapped in ((wrapped, res_w, True), (top, res_t, False)):
        for (sig, src, (ev, eo)), got in zip(group, res):
            cls, why, exp_t, act_t = judge_value(ev, eo, got)
            counts[cls] += 1
            sigs.append(sig)
            if why:
                fails.append((sig, why, src, exp_t, act_t, is_wrapped))
    return counts, sigs, fails


def transport_src(prog, kind):
    """render with every callee expression wrapped in the transport"""
    if kind == 'direct':
        return S.rdecls(prog)
    wrap = TRANSPORTS[kind]
    orig = S.rexpr

    def rexpr(e):
        if e[0] == 'call' and e[1][0] == 'var':
            f = wrap(e[1][1], None)
            return '%s(%s)' % (f, ', '.join(rexpr(a) for a in e[2]))
        if e[0] == 'call':
            f = rexpr(e[1])
            if e[1][0] == 'lam':
                f = '(' + f + ')'
            return '%s(%s)' % (f, ', '.join(rexpr(a) for a in e[2]))
        if e[0] == 'sum':
            return '(' + ' + '.join(rexpr(x) for x in e[1]) + ')' if e[1] else '0'
        if e[0] == 'disp':
            return 'display(%s)' % rexpr(e[1])
        if e[0] == 'if0':
            return 'if(%s == 0, %s, %s)' % (rexpr(e[1]), rexpr(e[2]), rexpr(e[3]))
        if e[0] == 'lam':
            return '(%s)->{ %s%s }' % (S.rparams(e[1]), S.rdecls(e[2]), rexpr(e[3]))
        return orig(e)
    S.rexpr = rexpr
    try:
        return S.rdecls(prog)
    finally:
        S.rexpr = orig


# ----------------------------------------------------------------------------- 2. capture matrix
def capture_matrix(tier):
    """chain f1 > f2 > ... > fd; at each level the name `a` is: absent, declared before the nested function, declared after it,
    a parameter, declared before AND after; the innermost function returns a + b where b is declared once at a chosen level"""
    out = []
    depths = (1, 2, 3) if tier == 'quick' else (1, 2, 3, 4)
    kinds = ('none', 'before', 'after', 'param', 'both')
    for d in depths:
        for placement in itertools.product(kinds, repeat=d + 1):     # level 0 = top level (no params there)
            if placement[0] == 'param':
                continue
            if all(p in ('none', 'after') for p in placement):
                continue       # a would not be nameable at the use site
            for style in (('nested', 'escaping') if tier == 'quick' else ('nested', 'escaping', 'escaping-lambda')):
                out.append(build_chain(d, placement, style))
    return out


def build_chain(d, placement, style):
    """returns (ast, label)"""
    ctr = [0]

    def lit():
        ctr[0] += 1
        return ('lit', 7 ** ctr[0])

    def level(k):
        """declarations of level k (0 = top) and the expression that yields the innermost result from this level"""
        pl = placement[k]
        decls = []
        if pl in ('before', 'both'):
            decls.append(('let', 'a', lit()))
        fname = 'f%d' % (k + 1)
        if k < d:
            inner_decls, inner_use = level(k + 1)
            params = [('a', INT, None)] if placement[k + 1] == 'param' else []
            args = [lit()] if params else []
            if style == 'nested':
                decls.append(('fn', fname, params, INT, inner_decls, inner_use))
                use = ('call', ('var', fname), args)
            else:
                # every level returns a closure over its scope; the chain is unwound only at top level
                ret = ('lam', [], [], inner_use) if style == 'escaping' else ('lam', [], inner_decls, inner_use)
                body = inner_decls if style == 'escaping' else []
                decls.append(('fn', fname, params, ('fn', [], INT), body, ret))
                use = ('call', ('call', ('var', fname), args), [])
        else:
            use = ('sum', [('var', 'a'), lit()])
        if pl in ('after', 'both'):
            decls.append(('let', 'a', lit()))
        if k == d:
            return decls, use
        return decls, use

    decls, use = level(0)
    # the use expression of the top level must be evaluated where `a` after-declarations are already made: that is the point —
    # the nested functions were declared before them and must not see them
    prog = decls + [('let', 'r', use)]
    return prog, 'd=%d|%s|%s' % (d, ','.join(placement), style)


def multi_capture(tier):
    """chain f1 > f2 > ... of nested functions; every level declares two variables (both lets or both parameters, so that cell
    indices of different levels coincide) and reads a chosen variable of every ancestor in a chosen subset, before or after its
    own nested function is defined: several captures of different distances live in one function, and a nested function's
    capture requests pass through parents that hold captures of their own.  Values are distinct powers of two: the observed
    sum names exactly the variables that were read"""
    out = []
    depths = (3, 4) if tier == 'quick' else (3, 4, 5)
    for D in depths:
        per_level = []
        for k in range(1, D):
            subsets = [tuple(j for j in range(k) if (m >> j) & 1) for m in range(1 << k)]
            whens = ('before', 'after') if k < D - 1 else ('before',)
            per_level.append([(a, w) for a in subsets for w in whens])
        kind_choices = list(itertools.product(('let', 'param'), repeat=D - 1))
        if D == 5:
            kind_choices = [kc for kc in kind_choices if kc in (('let',) * 4, ('param',) * 4, ('let', 'param', 'let', 'param'), ('param', 'let', 'param', 'let'), ('param', 'param', 'let', 'let'))]
        for uses in itertools.product(*per_level):
            if not any(a for a, w in uses):
                continue
            for kinds in kind_choices:
                for vsel in ('x', 'y', 'alt'):
                    out.append(build_multi(D, uses, ('let',) + kinds, vsel))
    return out


def build_multi(D, uses, kinds, vsel):
    ctr = [0]

    def lit():
        ctr[0] += 1
        return ('lit', 1 << ctr[0])

    def vname(j, k):
        which = vsel if vsel != 'alt' else 'xy'[(j + k) % 2]
        return '%s%d' % (which, j)

    def level(k):
        decls = []
        if kinds[k] == 'let':
            decls += [('let', 'x%d' % k, lit()), ('let', 'y%d' % k, lit())]
        tdecl = None
        if k >= 1:
            anc, when = uses[k - 1]
            tdecl = ('let', 't%d' % k, ('sum', [('var', vname(j, k)) for j in anc] + [lit()]))
            if when == 'before':
                decls.append(tdecl)
        if k < D - 1:
            inner_decls, inner_ret = level(k + 1)
            params = [('x%d' % (k + 1), INT, None), ('y%d' % (k + 1), INT, None)] if kinds[k + 1] == 'param' else []
            args = [lit(), lit()] if params else []
            decls.append(('fn', 'f%d' % (k + 1), params, INT, inner_decls, inner_ret))
            call = ('call', ('var', 'f%d' % (k + 1)), args)
            if tdecl is not None and when == 'after':
                decls.append(tdecl)
            ret = ('sum', [('var', 't%d' % k), call]) if k >= 1 else call
        else:
            ret = ('var', 't%d' % k)
        return decls, ret

    decls, use = level(0)
    prog = decls + [('let', 'r', use)]
    label = 'D=%d|%s|%s|%s' % (D, ';'.join('%s%s' % (''.join(map(str, a)) or '-', w[0]) for a, w in uses), ','.join(k[0] for k in kinds), vsel)
    return prog, label


# ----------------------------------------------------------------------------- 3/4. defaults, recursion (text templates + model values)
def text_cases(tier):
    """(label, source, expected value of r, expected output) — expectations computed by plain Python below"""
    out = []
    # defaults are evaluated once per creation of the function, in the defining scope, never at a call
    for creations in (1, 2, 3):
        for calls in (0, 1, 2, 3):
            # named nested function created once per call of mk
            src = ('fn mk(k: int)->(int)->(int){ fn g(x: int, y: int ?= display(k * 10))->int{ x + y } '
                   '(x: int)->{ %s } } ' % (' + '.join(['g(x)'] * calls) if calls else 'x') +
                   'let r = %s;' % ' + '.join('mk(%d)(1)' % (c + 1) for c in range(creations)))
            val = sum((calls * (1 + (c + 1) * 10)) if calls else 1 for c in range(creations))
            outp = ''.join('%d\n' % ((c + 1) * 10) for c in range(creations))
            out.append(('default|nested-fn|creations=%d|calls=%d' % (creations, calls), src, val, outp))
            # lambda with a default created inside a map callback: one creation per element
            src = ('let fs = range(%d).map((i: int)->{ (x: int ?= display(i + 100))->{ x } }).to_array(); '
                   'let r = %s;' % (creations, ' + '.join('fs[%d]()' % (c % creations) for c in range(max(calls, 1)))))
            val = sum(100 + (c % creations) for c in range(max(calls, 1)))
            outp = ''.join('%d\n' % (100 + c) for c in range(creations))
            out.append(('default|lambda-in-map|creations=%d|calls=%d' % (creations, calls), src, val, outp))
    # a default referring to a captured name sees the binding visible at the declaration, not a later shadow
    out.append(('default|captured-then-shadowed', 'let k = 5; fn g(y: int ?= k)->int{ y } let k = 9; let r = g() * 100 + k;', 509, ''))
    out.append(('default|uses-earlier-default-scope', 'let k = 5; fn g(x: int ?= k, y: int ?= k + 1)->int{ x * 10 + y } let r = g() + g(1) * 100 + g(1, 2) * 10000;', 56 + 1600 + 120000, ''))
    out.append(('default|top-level-once', 'fn g(y: int ?= display(3))->int{ y } let r = g() + g() + g(1);', 7, '3\n'))
    out.append(('default|never-called-still-evaluated', 'fn g(y: int ?= display(3))->int{ y } let r = 1;', 1, '3\n'))
    out.append(('default|order-with-lets', 'let a = display(1); fn g(y: int ?= display(2))->int{ y } let b = display(3); let r = g() + a + b;', 6, '1\n2\n3\n'))
    # closures created per iteration keep their own binding
    for n in (1, 2, 5):
        out.append(('closure|per-element|n=%d' % n, 'let fs = range(%d).map((i: int)->{ ()->{ i * i } }).to_array(); let r = fs.map((f: ()->(int))->{ f() }).sum();' % n,
                    sum(i * i for i in range(n)), ''))
        out.append(('closure|per-recursion-level|n=%d' % n,
                    'fn build(n: int, acc: Sequence<()->(int)>)->Sequence<()->(int)>{ if(n == 0, acc, build(n - 1, acc.push(()->{ n * 10 }))) } '
                    'let r = build(%d, []).map((f: ()->(int))->{ f() }).sum();' % n, sum(i * 10 for i in range(1, n + 1)), ''))
        out.append(('closure|per-nontail-recursion-level|n=%d' % n,
                    'fn build(n: int)->Sequence<()->(int)>{ if(n == 0, [], [()->{ n * 10 }] + build(n - 1)) } '
                    'let r = build(%d).map((f: ()->(int))->{ f() }).sum();' % n, sum(i * 10 for i in range(1, n + 1)), ''))
        out.append(('recursion|nested-captures-outer-param|n=%d' % n,
                    'fn outer(k: int, n: int)->int{ fn go(m: int, acc: int)->int{ if(m == 0, acc, go(m - 1, acc + k)) } go(n, 0) } let r = outer(7, %d) + outer(3, %d);' % (n, n), 10 * n, ''))
        out.append(('recursion|nested-nontail-captures|n=%d' % n,
                    'fn outer(k: int, n: int)->int{ fn go(m: int)->int{ if(m == 0, 0, k + go(m - 1)) } go(n) } let r = outer(7, %d) + outer(3, %d);' % (n, n), 10 * n, ''))
        out.append(('recursion|mutual-forward-captured|n=%d' % n,
                    'fn outer(k: int, n: int)->int{ forward fn odd(m: int)->int; fn even(m: int)->int{ if(m == 0, k, odd(m - 1)) } fn odd(m: int)->int{ if(m == 0, 0 - k, even(m - 1)) } even(n) } '
                    'let r = outer(7, %d);' % n, 7 if n % 2 == 0 else -7, ''))
        out.append(('recursion|closure-returned-from-recursion|n=%d' % n,
                    'fn mk(n: int)->(int)->(int){ if(n == 0, (x: int)->{ x }, (()->{ let inner = mk(n - 1); (x: int)->{ inner(x) + n } })()) } let r = mk(%d)(1000);' % n,
                    1000 + sum(range(1, n + 1)), ''))
    # the same literal instantiated with different captures, called interleaved
    # partial application keeps the supplied values, not the expressions: the result may be called anywhere
    out.append(('closure|partial-returned', 'fn add2(a: int, b: int)->int{ a * 10 + b } fn mk(k: int)->(int)->(int){ partial(add2, k) } let p3 = mk(3); let p7 = mk(7); let k = 100; '
                'let r = p3(1) * 1000 + p7(2);', 31072, ''))
    out.append(('closure|partial-of-local', 'fn add3(a: int, b: int, c: int)->int{ a * 100 + b * 10 + c } fn mk(k: int)->(int)->(int){ let j = k + 1; let p = partial(add3, k, j); let j = 0; p } '
                'fn ap(h: (int)->(int))->int{ let k = 9; let j = 9; h(5) } let r = ap(mk(1)) * 1000 + ap(mk(3));', 125 * 1000 + 345, ''))
    out.append(('closure|partial-evaluates-once', 'fn add2(a: int, b: int)->int{ a * 10 + b } let p = partial(add2, display(4)); let r = p(1) + p(2);', 41 + 42, '4\n'))
    out.append(('closure|partial-in-map', 'fn add2(a: int, b: int)->int{ a * 10 + b } let fs = range(3).map((i: int)->{ partial(add2, i) }).to_array(); let r = fs[0](5) + fs[1](5) * 100 + fs[2](5) * 10000;',
                5 + 15 * 100 + 25 * 10000, ''))
    out.append(('closure|interleaved-instances', 'fn adder(k: int)->(int)->(int){ (x: int)->{ x + k } } let a1 = adder(1); let a2 = adder(20); let r = a1(a2(a1(a2(0))));', 42, ''))
    out.append(('closure|three-levels', 'fn l1(a: int)->(int)->((int)->(int)){ (b: int)->{ (c: int)->{ a * 100 + b * 10 + c } } } let p = l1(1); let q = p(2); let q2 = l1(7)(8); let r = q(3) * 1000 + q2(9);', 123789, ''))
    out.append(('closure|captured-function-value', 'fn twice(f: (int)->(int))->(int)->(int){ (x: int)->{ f(f(x)) } } let k = 3; let addk = (x: int)->{ x + k }; let k = 100; let r = twice(twice(addk))(0);', 12, ''))
    out.append(('closure|sibling-shadow-in-body', 'let a = 1; fn f()->int{ let b = a; let a = 50; b + a } let a = 7; let r = f() * 10 + a;', 517, ''))
    out.append(('closure|param-shadowed-by-let', 'fn f(a: int)->int{ let g = ()->{ a }; let a = a + 1; let h = ()->{ a }; g() * 10 + h() } let r = f(3);', 34, ''))
    out.append(('closure|struct-field-function', 'struct B(run: (int)->(int)) fn mk(k: int)->B{ B((x: int)->{ x * k }) } let b2 = mk(2); let b5 = mk(5); let r = b2::run(1) * 10 + b5::run(1);', 25, ''))
    return out


# ----------------------------------------------------------------------------- 5. forward declarations
def forward_cases(tier):
    """(label, source, expect): expect = ('error', class) or ('value', v)"""
    out = []
    FWD = 'forward fn f(x: int)->int; '
    G = 'fn g(x: int)->int{ f(x) + 1 } '
    H = 'fn h(x: int)->int{ g(x) * 2 } '
    F = 'fn f(x: int)->int{ x + 100 } '
    K = 'fn k()->int{ g(1) } '
    LAM = 'let lam = (x: int)->{ f(x) + 5 }; '
    val = {'f': 101, 'g': 102, 'h': 204}
    uses = {
        'call': lambda n: 'let r = %s(1);' % n,
        'value-then-call': lambda n: 'let v = %s; let r = v(1);' % n,
        'map': lambda n: 'let r = [1].map(%s)[0];' % n,
        'returned': lambda n: 'fn get()->(int)->(int){ %s } let r = get()(1);' % n,
        'in-lambda-called': lambda n: 'let r = (()->{ %s(1) })();' % n,
        'in-struct': lambda n: 'struct W(run: (int)->(int)) let w = W(%s); let r = w::run(1);' % n,
    }
    dep = {'f': True, 'g': True, 'h': True}
    orders = [['g', 'h', 'f'], ['g', 'f', 'h'], ['f', 'g', 'h']]
    text = {'g': G, 'h': H, 'f': F}
    for order in orders:
        for pos in range(0, 4):
            for target in ('f', 'g', 'h'):
                for un, use in uses.items():
                    if tier == 'quick' and un in ('in-struct', 'returned') and order != orders[0]:
                        continue
                    declared = order[:pos]
                    if target not in declared and not (target == 'f'):
                        continue            # plainly undeclared names are C04's business
                    fulfilled = 'f' in declared
                    src = FWD + ''.join(text[x] for x in declared) + use(target) + ' ' + ''.join(text[x] for x in order[pos:])
                    # a function declared after f's fulfilment does not depend on a forward at all
                    exp = ('value', val[target]) if fulfilled else ('error', 'MissingForwardImplementation')
                    out.append(('forward|%s|pos=%d|%s|%s' % ('-'.join(order), pos, target, un), src, exp))
    # transitive through a function that only mentions a dependent function
    out.append(('forward|transitive-before', FWD + G + K + 'let r = k(); ' + F, ('error', 'MissingForwardImplementation')))
    out.append(('forward|transitive-after', FWD + G + K + F + 'let r = k();', ('value', 102)))
    out.append(('forward|lambda-before', FWD + LAM + F + 'let r = lam(1);', ('error', 'MissingForwardImplementation')))
    out.append(('forward|lambda-after', FWD + F + LAM + 'let r = lam(1);', ('value', 106)))
    out.append(('forward|never-fulfilled-not-used', FWD + G + 'let r = 1;', ('value', 1)))
    out.append(('forward|never-fulfilled-used', FWD + G + 'let r = g(1);', ('error', 'MissingForwardImplementation')))
    # nested in a function body
    for un, use in uses.items():
        if un == 'in-struct':
            continue
        inner_use = use('g').replace('let r = ', 'let q = ')
        out.append(('forward|nested|before|%s' % un, 'fn outer()->int{ %s%s%s %sq } let r = outer();' % (FWD, G, inner_use, F), ('error', 'MissingForwardImplementation')))
        out.append(('forward|nested|after|%s' % un, 'fn outer()->int{ %s%s%s%s q } let r = outer();' % (FWD, G, F, inner_use), ('value', 102)))
    # a nested function depending on a top-level forward makes its enclosing function dependent
    out.append(('forward|enclosing-becomes-dependent|before', FWD + 'fn outer()->int{ fn inner()->int{ f(1) } inner() } let r = outer(); ' + F, ('error', 'MissingForwardImplementation')))
    out.append(('forward|enclosing-becomes-dependent|after', FWD + 'fn outer()->int{ fn inner()->int{ f(1) } inner() } ' + F + 'let r = outer();', ('value', 101)))
    out.append(('forward|enclosing-lambda|before', FWD + 'fn outer()->int{ let l = ()->{ f(1) }; l() } let r = outer(); ' + F, ('error', 'MissingForwardImplementation')))
    out.append(('forward|enclosing-lambda|after', FWD + 'fn outer()->int{ let l = ()->{ f(1) }; l() } ' + F + 'let r = outer();', ('value', 101)))
    out.append(('forward|enclosing-value|before', FWD + 'fn outer()->(int)->(int){ f } let r = outer()(1); ' + F, ('error', 'MissingForwardImplementation')))
    out.append(('forward|enclosing-value|after', FWD + 'fn outer()->(int)->(int){ f } ' + F + 'let r = outer()(1);', ('value', 101)))
    # a forward-dependent function keeps working wherever its value travels (all after fulfilment)
    AP = 'fn ap(h: (int)->(int))->int{ h(1) } fn ap0(h: ()->(int))->int{ h() } '
    ROOT = FWD + G + F + AP
    routes = [
        ('direct', 'let r = g(1);'), ('alien-caller', 'let r = ap(g);'), ('map', 'let r = [1].map(g)[0];'),
        ('wrapped-returned', 'fn mk()->(int)->(int){ (x: int)->{ g(x) } } let r = mk()(1);'),
        ('wrapped-alien', 'fn mk()->(int)->(int){ (x: int)->{ g(x) } } let r = ap(mk());'),
        ('wrapped-twice', 'fn mk2()->()->((int)->(int)){ ()->{ (x: int)->{ g(x) } } } let r = mk2()()(1);'),
        ('wrapped-in-struct', 'struct W(run: (int)->(int)) fn mk()->W{ W((x: int)->{ g(x) }) } let r = mk()::run(1);'),
        ('nested-fn-alien', 'fn user()->int{ fn inner()->int{ g(1) } ap0(inner) } let r = user();'),
        ('closure-made-before-fulfilment-site', 'let r = ap((x: int)->{ g(x) });'),
    ]
    for rn, use in routes:
        out.append(('forward-escape|root|%s' % rn, ROOT + use, ('value', 102)))
    NEST = 'fn outer(k: int)->%s{ ' + FWD + G + 'fn f(x: int)->int{ x + 100 + k } %s } '
    nroutes = [
        ('direct', 'int', 'g(1)', 'outer(5)'), ('map', 'int', '[1].map(g)[0]', 'outer(5)'), ('alien-caller', 'int', 'ap(g)', 'outer(5)'),
        ('returned', '(int)->(int)', 'g', 'outer(5)(1)'), ('wrapped-returned', '(int)->(int)', '(x: int)->{ g(x) }', 'outer(5)(1)'),
        ('wrapped-alien', 'int', 'ap((x: int)->{ g(x) })', 'outer(5)'), ('nested-fn', 'int', 'fn inner()->int{ g(1) } inner()', 'outer(5)'),
        ('nested-fn-alien', 'int', 'fn inner()->int{ g(1) } ap0(inner)', 'outer(5)'),
        ('returned-f-itself', '(int)->(int)', 'f', 'outer(5)(1) + 1'),
    ]
    for rn, rt_, body, call in nroutes:
        out.append(('forward-escape|nested|%s' % rn, AP + NEST % (rt_, body) + 'let r = %s;' % call, ('value', 107)))
    out.append(('forward-escape|two-activations-returned', AP + NEST % ('(int)->(int)', 'g') + 'let g3 = outer(3); let g7 = outer(7); let r = g3(1) * 1000 + g7(1);', ('value', 105 * 1000 + 109)))
    out.append(('forward-escape|two-activations-alien', AP + NEST % ('int', 'ap(g)') + 'let r = outer(3) * 1000 + outer(7);', ('value', 105 * 1000 + 109)))
    for n in (1, 2, 5):
        out.append(('forward-escape|passed-down-recursion|n=%d' % n,
                    'fn idf(x: int)->int{ x } fn outer(n: int, h: (int)->(int))->int{ forward fn f(x: int)->int; fn g(x: int)->int{ f(x) } fn f(x: int)->int{ x + n } '
                    'if(n == 0, h(1000), outer(n - 1, g)) } let r = outer(%d, idf);' % n, ('value', 1001)))
    # overloaded forward declarations: each implementation fulfils the declaration of its own signature, whatever the order
    out += forward_overload_cases(tier)
    # mutual recursion at top level
    out.append(('forward|mutual', 'forward fn odd(n: int)->bool; fn even(n: int)->bool{ n == 0 || odd(n - 1) } fn odd(n: int)->bool{ n != 0 && even(n - 1) } let r = if(even(10) && odd(7) && !even(3), 1, 0);', ('value', 1)))
    return out


def forward_overload_cases(tier):
    out = []
    sigs = ['int', 'str', 'float']
    arg = {'int': '1', 'str': '"s"', 'float': '1.5'}
    nxt = {'int': 'str', 'str': 'float'}
    tag = {'int': 'i', 'str': 's', 'float': 'f'}
    fwd = ''.join('forward fn d(x: %s)->str; ' % t for t in sigs)
    for cross in (False, True):
        def body(t):
            if cross and t in nxt:
                return '"%s" + d(%s)' % (tag[t], arg[nxt[t]])
            return '"%s"' % tag[t]

        def value(t):
            return tag[t] + (value(nxt[t]) if cross and t in nxt else '')
        for generic in (False, True):
            pre = fwd + ('fn d<T>(x: T)->str{ "generic" } ' if generic else '')
            for order in itertools.permutations(sigs):
                for pos in range(0, 4):
                    ful = set(order[:pos])

                    def allowed(t):
                        # invoking t invokes, transitively, everything its body calls: all of it must be implemented
                        return t in ful and (not (cross and t in nxt) or allowed(nxt[t]))
                    for t in sigs:
                        ok = allowed(t)
                        src = pre + ''.join('fn d(x: %s)->str{ %s } ' % (o, body(o)) for o in order[:pos]) + 'let r = d(%s); ' % arg[t] + \
                            ''.join('fn d(x: %s)->str{ %s } ' % (o, body(o)) for o in order[pos:])
                        exp = ('value', value(t)) if ok else ('error', 'MissingForwardImplementation')
                        out.append(('forward-overloads|%s|%s|order=%s|pos=%d|call=%s' % ('cross' if cross else 'flat', 'generic' if generic else 'plain', '-'.join(order), pos, t), src, exp))
                # a user function declared after the forwards and called at the end sees every implementation in its own cell
                src = pre + 'fn user()->str{ d(1) + "," + d("s") + "," + d(1.5) } ' + ''.join('fn d(x: %s)->str{ %s } ' % (o, body(o)) for o in order) + 'let r = user();'
                out.append(('forward-overloads|%s|%s|order=%s|user' % ('cross' if cross else 'flat', 'generic' if generic else 'plain', '-'.join(order)), src,
                            ('value', ','.join(value(t) for t in sigs))))
    return out


# ----------------------------------------------------------------------------- 6. identifiers
IDENTS = ['a', 'A', '_a', 'a_', 'a0', 'a00', 'a_0', 'aa', 'item', 'item0', 'item00', 'item1', 'item01', 'item1x', 'item1_', 'item10', 'item_1', 'xitem1', 'Item1',
          'iteM1', 'item2', 'item02', 'item65535', 'item65536', 'item4294967296', 'item18446744073709551616', 'item99999999999999999999999',
          'letx', 'let_', 'fnx', 'iff', 'truex', 'falsey', 'nonex', 'forwardx', 'structx', 'unionx', 'typex', 'r_', 'f_', 'e1', 'x1e5', 'b0', 'x0b1', 'o', 'l', 'I', 'O0', '__', '_1', 'a__b', 'a_b_']


def ident_cases(tier):
    """(label, source, names observed, expected values)"""
    out = []
    ids = IDENTS
    # all in one program, as variables (declaration order and reverse)
    for tag, order in (('fwd', ids), ('rev', ids[::-1])):
        src = ''.join('let %s = %d; ' % (n, 1000 + ids.index(n)) for n in order)
        src += 'let r = [%s];' % ', '.join(ids)
        out.append(('idents|variables|%s' % tag, src, [1000 + i for i in range(len(ids))]))
    # as parameters of one function
    src = 'fn f(%s)->Sequence<int>{ [%s] } let r = f(%s);' % (', '.join('%s: int' % n for n in ids), ', '.join(ids), ', '.join(str(2000 + i) for i in range(len(ids))))
    out.append(('idents|parameters', src, [2000 + i for i in range(len(ids))]))
    # as struct fields
    src = 'struct St(%s) let s = St(%s); let r = [%s];' % (', '.join('%s: int' % n for n in ids), ', '.join(str(3000 + i) for i in range(len(ids))), ', '.join('s::%s' % n for n in ids))
    out.append(('idents|struct-fields', src, [3000 + i for i in range(len(ids))]))
    # as function names (zero-argument functions)
    src = ''.join('fn %s()->int{ %d } ' % (n, 4000 + i) for i, n in enumerate(ids)) + 'let r = [%s];' % ', '.join('%s()' % n for n in ids)
    out.append(('idents|functions', src, [4000 + i for i in range(len(ids))]))
    # as captured names at distance 2
    src = ''.join('let %s = %d; ' % (n, 5000 + i) for i, n in enumerate(ids)) + 'fn outerfn__()->()->(Sequence<int>){ ()->{ [%s] } } let r = outerfn__()();' % ', '.join(ids)
    out.append(('idents|captured', src, [5000 + i for i in range(len(ids))]))
    # pairwise: the second declaration must not disturb the first (both orders)
    pairs = list(itertools.permutations(ids, 2)) if tier != 'quick' else [(x, y) for x, y in itertools.permutations(ids, 2) if x.startswith('item') or y.startswith('item')]
    for x, y in pairs:
        out.append(('idents|pair|%s|%s' % (x, y), 'let %s = 1; let %s = 2; let r = [%s, %s];' % (x, y, x, y), [1, 2]))
    # tuple members: itemN means the N-th member only in its canonical spelling
    tup = '(%s)' % ', '.join(str(10 + i) for i in range(12))
    for i in range(12):
        out.append(('idents|tuple-member|item%d' % i, 'let t = %s; let r = [t::item%d];' % (tup, i), [10 + i]))
    for bad in ('item00', 'item01', 'item1x', 'item012', 'item12', 'item99999999999999999999999', 'item', 'Item1', 'item1_', 'item65536'):
        out.append(('idents|tuple-member-rejected|%s' % bad, 'let t = %s; let r = [t::%s];' % (tup, bad), 'cerr'))
    return out


# ----------------------------------------------------------------------------- running
def _run_programs(items):
    """items: (source, observe) — one job per program (fresh scope each)"""
    res = []
    for src, limits in items:
        job = {'id': 0, 'limits': limits or {}, 'dump': {'max_items': 100}, 'steps': [{'feed': HELP}, {'feed': src}, {'op': 'inst'}, {'op': 'get', 'name': 'r'}]}
        rep = run_job(job, timeout=30.0)
        if 'fatal' in rep:
            res.append(('fatal', rep['fatal'], ''))
            continue
        rs = rep['replies']
        feed = rs[1]['v']
        if 'cerr' in feed:
            res.append(('cerr', feed['cerr']['class'], feed['cerr']['text'])); continue
        if 'panic' in feed:
            res.append(('panic', 'compile:' + feed['panic'].get('loc', ''), feed['panic'].get('msg', ''))); continue
        inst = decode(rs[2]['v'])
        out = rs[2]['c']['out'] + rs[3]['c']['out']
        if inst is not True:
            res.append(('inst', repr(inst), out)); continue
        res.append(('value', decode(rs[3]['v']), out))
    return res


def _run_wrapped(bodies):
    """each program as the body of a zero-argument lambda on one shared scope (all scope heights shifted by one)"""
    units = [('c%d' % i, 'let c%d = ()->{ %sr };' % (i, b)) for i, b in enumerate(bodies)]
    outs = run_units(units, prelude=[HELP], dump={'max_items': 100}, timeout=30.0)
    res = []
    for o in outs:
        v = o.v
        if isinstance(v, CErr):
            res.append(('cerr', v.cls, v.text))
        elif isinstance(v, Panic):
            res.append(('panic', v.loc, v.msg))
        elif isinstance(v, (Fatal, HostErr)):
            res.append(('fatal', repr(v), ''))
        else:
            res.append(('value', v, o.out))
    return res


def wrapjob(body):
    return mk_unit_job([HELP], [('c0', 'let c0 = ()->{ %sr };' % body)], None, None, {'max_items': 100})


def mkjob(src):
    return {'id': 0, 'limits': {}, 'dump': {'max_items': 100}, 'steps': [{'feed': HELP}, {'feed': src}, {'op': 'inst'}, {'op': 'get', 'name': 'r'}]}


def judge_value(exp_v, exp_out, got):
    """(outcome class, why or None, expected text, actual text)"""
    kind, a, b = got
    if kind == 'value' and isinstance(a, (Viol, Panic)):
        kind, a, b = ('panic', a.loc, a.msg) if isinstance(a, Panic) else ('violation', a.kind, '')
    if kind != 'value':
        from ..core import norm_loc
        why = kind + (':' + a if kind == 'cerr' else ('@' + norm_loc(a.replace('compile:', '')) if kind == 'panic' else ''))
        return kind, why, '%r out=%r' % (exp_v, exp_out), '%s %s %s' % (kind, a, str(b)[:200])
    v = a
    from ..core import Seq
    if isinstance(exp_v, list):
        ok = isinstance(v, Seq) and len(v.items) == len(exp_v) and all(veq(x, y) for x, y in zip(v.items, exp_v))
    else:
        ok = veq(v, exp_v)
    if not ok:
        return 'value', 'wrong-value', repr(exp_v)[:300], repr(v)[:300]
    if exp_out is not None and b != exp_out:
        return 'value', 'wrong-output', repr(exp_out), repr(b)
    return 'value', None, '', ''


def check_value(rep, sig, src, exp_v, exp_out, got, job=None):
    rep.evaluations += 1
    rep.nontrivial.add(sig)
    rep.states += 1
    rep.transitions += 1
    cls, why, exp_t, act_t = judge_value(exp_v, exp_out, got)
    rep.outcome(cls)
    if why:
        rep.fail(Failure(PROP, '%s|%s' % (sig, why), {'src': src}, exp_t, act_t, job or mkjob(src)))


def run(tier):
    rep = Report(PROP, tier, 'model_checking',
                 'reference = persistent-environment evaluator (mc/model/scope.py). (1) every declaration tree of <=3/4 (quick) or <=4/5/6 '
                 '(thorough) declarations over {int let, named function, closure-returning function, let-bound lambda} x parameter shapes '
                 '{none, shadowing parameter, printing default} with a maximal observation at every site, each rendered with the callee values '
                 'transported through %d routes; (2) capture matrix: nesting depth 1..3/4 x {absent, before, after, parameter, both}^levels x '
                 '{nested call, escaping closures}, and chains of depth 3..4/5 in which every level reads a chosen variable of every ancestor in a chosen subset before or after its own nested function (all subsets x let/parameter cells x variable choice); (3) defaults: creations x calls with counted output; (4) recursion through captured names '
                 'and closures created per iteration / per recursion level; (5) forward declarations: every declaration order x use position '
                 'x target x 6 ways of using a function; (6) %d identifier spellings in 5 declaration roles and all ordered pairs; '
                 'non-trivial = distinct programs' % (len(TRANSPORTS), len(IDENTS)))
    # 1. trees (streamed in batches: reference evaluation and rendering happen in the workers)
    import hashlib
    ntrees = 0
    ntop = 0
    nruns = 0
    sample_tree = None

    def batches():
        nonlocal ntrees, ntop, sample_tree
        cur = []
        for item in iter_trees(tier):
            ntrees += 1
            ntop += bool(item[2])
            if ntrees == 1000:
                sample_tree = item[1]
            cur.append(item)
            if len(cur) >= 1500:
                yield (cur, tier)
                cur = []
        if cur:
            yield (cur, tier)
    for counts, sigs, fails in pmap_stream(_tree_worker, batches()):
        for cls, n in counts.items():
            rep.outcomes[cls] = rep.outcomes.get(cls, 0) + n
            rep.evaluations += n
            rep.states += n
            rep.transitions += n
            nruns += n
        rep.nontrivial_count += len(sigs)
        for sig, why, src, exp_t, act_t, is_wrapped in fails:
            rep.fail(Failure(PROP, 'C03|%s|%s' % (sig, why), {'src': src}, exp_t, act_t, wrapjob(src) if is_wrapped else mkjob(src)))
    rep.bounds['declaration_trees'] = ntrees
    rep.bounds['declaration_trees_also_at_top_level'] = ntop
    rep.bounds['tree_runs'] = nruns
    wrapped, top = [], []
    # 2. capture matrix
    cm = capture_matrix(tier)
    rep.bounds['capture_matrix_programs'] = len(cm)
    for prog, label in cm:
        exp = S.run_ref(prog)
        wrapped.append(('capture|' + label, S.rdecls(prog), exp))
        top.append(('capture-top|' + label, S.rdecls(prog), exp))
    mc_ = multi_capture(tier)
    rep.bounds['multi_capture_programs'] = len(mc_)
    for prog, label in mc_:
        exp = S.run_ref(prog)
        wrapped.append(('multi-capture|' + label, S.rdecls(prog), exp))
        top.append(('multi-capture-top|' + label, S.rdecls(prog), exp))
    for label, src, v, outp in text_cases(tier):
        top.append((label, src, (v, outp)))

    def short(sig):
        return sig if len(sig) < 200 else sig[:150] + '#' + hashlib.sha1(sig.encode()).hexdigest()[:10]
    res = []
    for part in pmap(_run_wrapped, chunks([w[1] for w in wrapped], 120)):
        res += part
    for (sig, src, (ev, eo)), got in zip(wrapped, res):
        check_value(rep, 'C03|' + short(sig), src, ev, eo, got, wrapjob(src))
    res = []
    for part in pmap(_run_programs, chunks([(w[1], None) for w in top], 50)):
        res += part
    for (sig, src, (ev, eo)), got in zip(top, res):
        check_value(rep, 'C03|' + short(sig), src, ev, eo, got)
    work = wrapped
    # 5. forward
    fc = forward_cases(tier)
    rep.bounds['forward_programs'] = len(fc)
    res = []
    for part in pmap(_run_programs, chunks([(c[1], None) for c in fc], 100)):
        res += part
    for (label, src, exp), got in zip(fc, res):
        sig = 'C03|' + label
        if exp[0] == 'value':
            check_value(rep, sig, src, exp[1], None, got)
        else:
            rep.evaluations += 1
            rep.nontrivial.add(sig)
            kind, a, b = got
            rep.outcome(kind)
            if not (kind == 'cerr' and a == exp[1]):
                rep.fail(Failure(PROP, sig + '|' + ('invoked-before-fulfilment' if kind != 'cerr' else 'wrong-error:' + a), {'src': src}, 'compilation error %s' % exp[1],
                                 '%s %s %s' % (kind, a, str(b)[:200]), mkjob(src)))
    # 6. identifiers
    ic = ident_cases(tier)
    rep.bounds['identifier_programs'] = len(ic)
    res = []
    for part in pmap(_run_programs, chunks([(c[1], None) for c in ic], 200)):
        res += part
    for (label, src, exp), got in zip(ic, res):
        sig = 'C03|' + label
        if exp == 'cerr':
            rep.evaluations += 1
            rep.nontrivial.add(sig)
            rep.outcome(got[0])
            if got[0] != 'cerr':
                rep.fail(Failure(PROP, sig + '|accepted', {'src': src}, 'a compilation error', '%s %r' % (got[0], got[1]), mkjob(src)))
        else:
            check_value(rep, sig, src, exp, None, got)
    rep.sample({'tree': (sample_tree or '')[:400]})
    rep.sample({'capture': S.rdecls(cm[len(cm) // 2][0])[:400]})
    rep.sample({'forward': fc[7][1]})
    rep.assumptions = ['named functions have program-unique names (same-named functions aggregate into overloads: C05)',
                       'every literal site has a distinct value (powers of 3 / 7) so that a wrong binding changes the observed sum',
                       'creating a lambda that depends on an unfulfilled forward declaration is a compilation error (the conservative reading)']
    return rep.finish()


def replay(rec):
    from ..table import replay_table
    return replay_table(rec)
