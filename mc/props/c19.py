"""C19 — derived equality, hash, order and text are coherent; sorting is right.
E1: laws over complete small value universes per static type; the format-specifier grammar against Python's identical
grammar; sorting / order statistics against a stable reference sort; E3: a comparator that fails (violation or error) at the
k-th comparison for every k, with the accounting level as the witness that no element is lost, duplicated or leaked."""
import itertools, re, math
from ..core import (Report, xint, xfloat, xstr, Seq, Opt, Err, veq, Failure, run_job, run_units, decode, pmap, chunks, Viol, Panic,
                    Fatal, CErr, HostErr, Machinery, mk_unit_job)
from ..table import run_table, replay_table, ERR, UNSPEC, pred, predicate

PROP = 'C19'

PRELUDE = ('fn ids(s: Sequence<int>)->Sequence<int>{ s }\nfn inc(x: int)->int{ x + 1 }\nfn icmp(a: int, b: int)->int{ cmp(a, b) }\n'
           'fn rcmp(a: int, b: int)->int{ cmp(b, a) }\nfn half(a: int, b: int)->int{ cmp(a.div_floor(2), b.div_floor(2)) }\n'
           'fn par(a: int, b: int)->int{ cmp(a % 2, b % 2) }\nfn kcmp(a: (int, int), b: (int, int))->int{ cmp(a::item0, b::item0) }\n'
           'fn ido(o: Optional<int>)->Optional<int>{ o }\nfn idk(s: Stack<int>)->Stack<int>{ s }\n'
           'struct Wd(w: int)\nfn cmp(a: Wd, b: Wd)->int{ (a::w - b::w) * 3 }\n')


# ----------------------------------------------------------------------------- value universes (expr, python model)
def universes(tier):
    big = 1 << 64
    ints = [(xint(v), v) for v in (0, 1, -1, big)]
    strs = [(xstr(v), v) for v in ('', 'a', 'b', 'é')]
    floats = [(xfloat(v), v) for v in (0.0, 1.5, -2.0)] + [('(-0.0)', -0.0), ('(0.0 * -1.0)', -0.0)]     # negative zero equals zero: every order must agree
    bools = [('true', True), ('false', False)]
    U = {}
    U['int'] = ints
    U['str'] = strs
    U['float'] = floats
    U['bool'] = bools
    U['(int, str)'] = [('(%s, %s)' % (a[0], b[0]), (a[1], b[1])) for a in ints[:3] for b in strs[:3]]
    U['(int, int, int)'] = [('(%s, %s, %s)' % (a, b, c), (a, b, c)) for a in (0, 1) for b in (0, 1) for c in (0, 2)]
    seqs = [('ids([])', []), ('[0]', [0]), ('[1]', [1]), ('[0, 0]', [0, 0]), ('[0, 1]', [0, 1]), ('[1, 0]', [1, 0]), ('[-1]', [-1]),
            ('range(2)', [0, 1]), ('range(1)', [0]), ('[0].map(inc)', [1]), ('[0, 1].take(1)', [0]), ('[1] + [0]', [1, 0]),
            ('ids([]).map(inc)', []), ('[%s]' % xint(big), [big])]
    U['Sequence<int>'] = seqs
    U['Sequence<str>'] = [('[%s]' % ', '.join(xstr(x) for x in l) if l else '["a"].take(0)', list(l)) for l in ([], ['a'], ['b'], ['a', 'b'], ['a', 'a'], ['é'], [''])]
    U['Optional<int>'] = [('ido(none())', ('none',)), ('some(0)', ('some', 0)), ('some(1)', ('some', 1)), ('some(-1)', ('some', -1)), ('some(%s)' % xint(big), ('some', big))]
    U['Stack<int>'] = [('idk(stack())', ('stk',)), ('stack().push(0)', ('stk', 0)), ('stack().push(1)', ('stk', 1)), ('stack().push(0).push(1)', ('stk', 1, 0)),
                       ('stack().push(1).push(0)', ('stk', 0, 1)), ('stack().push(1).push(1)', ('stk', 1, 1))]
    U['Set<int>'] = [('set<int>()', frozenset()), ('set<int>().add(0)', frozenset([0])), ('set<int>().add(1)', frozenset([1])), ('set<int>().add(0).add(1)', frozenset([0, 1])),
                     ('set<int>().add(1).add(0)', frozenset([0, 1])), ('set<int>().add(0).add(1).remove(0)', frozenset([1])), ('set<int>().add(5).remove(5)', frozenset())]
    m0 = 'mapping<int>().set(9, 9).pop(9)'
    U['Mapping<int, int>'] = [(m0, {}), ('mapping<int>().set(0, 1)', {0: 1}), ('mapping<int>().set(0, 2)', {0: 2}), ('mapping<int>().set(1, 1)', {1: 1}),
                              ('mapping<int>().set(0, 1).set(1, 1)', {0: 1, 1: 1}), ('mapping<int>().set(1, 1).set(0, 1)', {0: 1, 1: 1}),
                              ('mapping<int>().set(0, 2).set(0, 1)', {0: 1})]
    if tier != 'quick':
        U['Sequence<(int, str)>'] = [('[%s]' % ', '.join(e for e, _ in c) if c else '[(0, "")].take(0)', [m for _, m in c])
                                     for n in (0, 1, 2) for c in itertools.product(U['(int, str)'][:4], repeat=n)]
        U['(Sequence<int>, Optional<int>)'] = [('(%s, %s)' % (a[0], b[0]), (a[1], b[1])) for a in seqs[:8] for b in U['Optional<int>'][:3]]
        U['Optional<Sequence<int>>'] = [('some(%s)' % a[0], ('some', a[1])) for a in seqs[:8]]
        U['Sequence<Sequence<int>>'] = [('[%s]' % ', '.join(e for e, _ in c), [m for _, m in c]) for n in (1, 2) for c in itertools.product(seqs[:6], repeat=n)]
    return U


ORDERED = {'int', 'str', 'float', '(int, str)', '(int, int, int)', 'Sequence<int>', 'Sequence<str>', 'Sequence<(int, str)>', 'Sequence<Sequence<int>>', 'bool'}
HASHED = lambda t: t not in ('float',)


def pycmp(a, b):
    if isinstance(a, list):
        for x, y in zip(a, b):
            c = pycmp(x, y)
            if c:
                return c
        return (len(a) > len(b)) - (len(a) < len(b))
    if isinstance(a, tuple):
        for x, y in zip(a, b):
            c = pycmp(x, y)
            if c:
                return c
        return 0
    return (a > b) - (a < b)


def pystr(v):
    if isinstance(v, bool): return 'true' if v else 'false'
    if isinstance(v, int): return str(v)
    if isinstance(v, str): return v
    if isinstance(v, (list, tuple)):
        if isinstance(v, tuple) and v and v[0] in ('none', 'some', 'stk'): return None
        parts = [pystr(x) for x in v]
        if any(p is None for p in parts): return None      # a component without a documented text
        return ('[%s]' if isinstance(v, list) else '(%s)') % ', '.join(parts)
    return None


def law_cases(tier):
    out = []

    def add(sig, src, exp):
        out.append({'sig': 'C19|' + sig, 'src': src, 'exp': exp})
    # a user type whose cmp returns differences of any magnitude: only the sign may matter to everything derived from it
    for x, y in itertools.product((0, 1, 2, 7, -5, 1 << 64), repeat=2):
        c = (x > y) - (x < y)
        a, b = 'Wd(%s)' % xint(x), 'Wd(%s)' % xint(y)
        add('user-cmp|%d|%d' % (x, y), '(%s < %s, %s <= %s, %s > %s, %s >= %s, sign(cmp(%s, %s)), lt(%s, %s), gt(%s, %s), (%s, 0) > (%s, 0), [%s] > [%s], [%s] < [%s])' % (
            a, b, a, b, a, b, a, b, a, b, a, b, a, b, a, b, a, b, a, b), (c < 0, c <= 0, c > 0, c >= 0, c, c < 0, c > 0, c > 0, c > 0, c < 0))
        add('user-cmp-minmax|%d|%d' % (x, y), '(max(%s, %s)::w, min(%s, %s)::w, [%s, %s].sort().map((q: Wd)->{ q::w }).to_array())' % (a, b, a, b, a, b),
            (max(x, y), min(x, y), Seq(sorted([x, y]))))
    for t, vals in universes(tier).items():
        for (ea, ma), (eb, mb) in itertools.product(vals, repeat=2):
            k = '%s|%s|%s' % (t, ea, eb)
            eq = (ma == mb)
            add('eq|' + k, '(%s == %s, %s == %s, %s != %s)' % (ea, eb, eb, ea, ea, eb), (eq, eq, not eq))
            if HASHED(t):
                add('hash|' + k, 'let ha = hash(%s); let hb = hash(%s); (ha == hb || !%s, ha >= 0 && ha < 18446744073709551616)' % (ea, eb, 'true' if eq else 'false'), (True, True))
            if t in ORDERED:
                c = pycmp(ma, mb)
                add('cmp|' + k, '(sign(cmp(%s, %s)), sign(cmp(%s, %s)), %s < %s, %s <= %s, %s > %s, %s >= %s)' % (ea, eb, eb, ea, ea, eb, ea, eb, ea, eb, ea, eb),
                    (c, -c, c < 0, c <= 0, c > 0, c >= 0))
                if t in ('int', 'str', 'float', '(int, str)', 'Sequence<int>'):
                    add('minmax|' + k, '(min(%s, %s) == %s, max(%s, %s) == %s)' % (ea, eb, ea if c <= 0 else eb, ea, eb, ea if c >= 0 else eb), (True, True))
        for (ea, ma) in vals:
            s = pystr(ma)
            if s is not None and t not in ('float',):
                add('to_str|%s|%s' % (t, ea), 'to_str(%s)' % ea, s)
            if t in ('int', 'str', 'float'):
                add('format-empty|%s|%s' % (t, ea), 'format(%s, "") == to_str(%s)' % (ea, ea), True)
        # transitivity on triples of the first values
        tri = vals[:6] if tier == 'quick' else vals[:10]
        for (ea, ma), (eb, mb), (ec, mc) in itertools.product(tri, repeat=3):
            if ma == mb and mb == mc:
                add('eq-trans|%s|%s|%s|%s' % (t, ea, eb, ec), '%s == %s' % (ea, ec), True)
            if t in ORDERED and pycmp(ma, mb) <= 0 and pycmp(mb, mc) <= 0:
                add('cmp-trans|%s|%s|%s|%s' % (t, ea, eb, ec), 'cmp(%s, %s) <= 0' % (ea, ec), True)
    # float formatting vs to_str over more values
    for v in (0.0, 1.5, -2.0, 0.1, 1e21, 1e-7, 123456.789, 100.0, -0.0, 5e-324, 1e300):
        add('format-empty|float|%r' % v, 'format(%s, "") == to_str(%s)' % (xfloat(v), xfloat(v)), True)
    return out


# ----------------------------------------------------------------------------- format grammar
@predicate
def sci_of(v, x, upper, tol=1e-5):
    if not isinstance(v, str):
        return False, 'wrong-type'
    if not re.fullmatch(r'-?\d(\.\d+)?%s[+-]?\d+' % ('E' if upper else 'e'), v):
        return False, 'not-scientific-notation'
    try:
        got = float(v)
    except ValueError:
        return False, 'not-a-number'
    ok = got == x or abs(got - x) <= tol * abs(x)
    return ok, '' if ok else 'wrong-value'


def ref_int(v, fill, align, sign, alt, zero, width, grp, mode):
    """integer formatting written from std_conventions.md + int.md; None = the book leaves it open"""
    if grp and mode:
        return None          # grouping of non-decimal digits: unspecified
    if alt and not mode:
        return None          # '#' without a mode: unspecified
    digits = {'': '%d', 'b': None, 'o': '%o', 'x': '%x', 'X': '%x'}[mode]
    mag = abs(v)
    body = bin(mag)[2:] if mode == 'b' else digits % mag
    if grp:
        parts = []
        while len(body) > 3:
            parts.insert(0, body[-3:])
            body = body[:-3]
        parts.insert(0, body)
        body = grp.join(parts)
    if alt:
        if (zero or align == '=') and width:
            return None      # where the padding goes relative to the 0x prefix: unspecified
        body = '0' + mode + body
    sg = '-' if v < 0 else {'+': '+', ' ': ' '}.get(sign, '')
    if not width:
        return sg + body
    w = int(width)
    pad = max(0, w - len(sg) - len(body))
    a = align or ('=' if zero else '>')
    f = fill or ('0' if zero else ' ')
    if a == '<':
        return sg + body + f * pad
    if a == '>':
        return f * pad + sg + body
    if a == '=':
        return sg + f * pad + body
    left = pad // 2
    return f * left + sg + body + f * (pad - left)


def format_cases(tier):
    out = []

    def add(sig, src, exp):
        out.append({'sig': 'C19|' + sig, 'src': src, 'exp': exp})
    fills = ['', '*', '0', 'x'] + (['@'] if tier != 'quick' else [])   # a non-ASCII fill is rejected on purpose (xformatter.rs): not specified by the book
    aligns = ['', '<', '>', '^', '=']
    signs = ['', '+', '-', ' ']
    widths = ['', '1', '6', '13']
    ints = [0, 5, -5, 1234567, -1234567, 1 << 70]
    if tier == 'quick':
        ints = [0, 5, -5, 1234567, -(1 << 70)]
    for fill, align, sign, alt, zero, width, grp, mode in itertools.product(fills, aligns, signs, ('', '#'), ('', '0'), widths, ('', '_', ','), ('', 'b', 'o', 'x', 'X')):
        if fill and not align:
            continue
        if tier == 'quick' and (mode in ('o', 'X') or (fill == 'x') or width == '1'):
            continue
        spec = fill + align + sign + alt + zero + width + grp + mode
        for v in ints:
            r = ref_int(v, fill, align, sign, alt, zero, width, grp, mode)
            exp = UNSPEC if r is None else r
            src = 'format(%s, %s)' % (xint(v), xstr(spec))
            if mode == 'X' and r is not None:
                src, exp = 'lower(%s)' % src, r.lower()
            add('format-int|%s|%d' % (spec, v), src, exp)
    strs = ['', 'ab', 'é中']
    for fill, align, width in itertools.product(fills, ['', '<', '>', '^'], widths):
        if fill and not align:
            continue
        spec = fill + align + width
        for v in strs:
            pyspec = spec if align else ('>' + spec if width else spec)  # the book: right aligned unless told otherwise
            e = format(v, pyspec.replace('é', '~')).replace('~', 'é')
            add('format-str|%s|%s' % (spec, v), 'format(%s, %s)' % (xstr(v), xstr(spec)), e)
    floats = [0.0, -1.5, 1234.5678, 0.000123, 1e20, -1e-7, 2.5, 0.125]
    for fill, align, sign, zero, width, grp, prec, mode in itertools.product(['', '*'], aligns, signs, ('', '0'), ['', '12'], ('', ','), ('.0', '.2', '.7'), ('', 'f', '%')):
        if fill and not align:
            continue
        if tier == 'quick' and (prec == '.7' or sign == '-' or grp):
            continue
        spec = fill + align + sign + zero + width + grp + prec + mode
        for v in floats:
            if zero and grp and width:
                continue      # Python puts group separators into the zero padding; the book does not (same facet as for integers)
            add('format-float|%s|%r' % (spec, v), 'format(%s, %s)' % (xfloat(v), xstr(spec)), format(v, spec if mode else spec + 'f'))
    for v in (1.5, -1234.5678, 1e20, 1e-7):
        for prec in ('', '.2'):
            tol = 0.006 if prec else 1e-5
            add('format-float-e|%s|%r' % (prec, v), 'format(%s, %s)' % (xfloat(v), xstr(prec + 'e')), pred('sci_of', v, False, tol))
            add('format-float-E|%s|%r' % (prec, v), 'format(%s, %s)' % (xfloat(v), xstr(prec + 'E')), pred('sci_of', v, True, tol))
    # invalid specifiers must be error values
    for spec in ('q', '5q', '.', '5.', '#q', '5,5', '++5'):
        add('format-invalid-int|' + spec, 'format(5, %s)' % xstr(spec), ERR if spec in ('q', '5q', '#q', '5,5', '++5') else UNSPEC)
        add('format-invalid-float|' + spec, 'format(1.5, %s)' % xstr(spec), ERR if spec in ('q', '5q', '#q', '5,5', '++5') else UNSPEC)
    for spec in ('x', '5d', '5,5'):
        add('format-invalid-str|' + spec, 'format("a", %s)' % xstr(spec), ERR)
    return out


@predicate
def one_of_str(v, want):
    return (v == want), 'wrong-value'


# ----------------------------------------------------------------------------- sorting
def sort_lists(tier):
    out = []
    mx = 6 if tier == 'quick' else 8
    for n in range(0, mx + 1):
        for t in itertools.product((0, 1, 2), repeat=n):
            out.append(list(t))
    return out


def structured_lists(tier):
    out = []
    lens = (9, 10, 11, 19, 20, 21, 40) if tier == 'quick' else (9, 10, 11, 19, 20, 21, 40, 63, 64, 65, 100, 200)
    for n in lens:
        out.append(list(range(n)))
        out.append(list(range(n, 0, -1)))
        out.append([7] * n)
        for k in (2, 3, 5):
            out.append([i % k for i in range(n)])
        step = 1 if (tier != 'quick' and n <= 65) else max(1, n // 6)
        for split in range(0, n + 1, step):
            out.append(list(range(split)) + list(range(n - split)))
        for run in range(2, min(n, 25) + 1, 1 if tier != 'quick' else 4):
            l = []
            base = 0
            while len(l) < n:
                l += list(range(base + run, base, -1))
                base += run
            out.append(l[:n])
    return out


def lit(l):
    return 'ids([%s])' % ', '.join(xint(x) for x in l)


def sort_cases(tier):
    out = []

    def add(sig, src, exp):
        out.append({'sig': 'C19|' + sig, 'src': src, 'exp': exp})
    for l in sort_lists(tier):
        L = lit(l)
        k = ','.join(map(str, l))
        add('sort|%s' % k, '%s.sort(icmp)' % L, Seq(sorted(l)))
        add('sort-dyn|%s' % k, '%s.sort()' % L, Seq(sorted(l)))
        if len(l) <= 6 or tier != 'quick':
            add('sort_reverse|%s' % k, '%s.sort_reverse(icmp)' % L, Seq(sorted(l, reverse=True)))
            add('sort-rcmp|%s' % k, '%s.sort(rcmp)' % L, Seq(sorted(l, key=lambda x: -x)))
            add('sort-preorder-half|%s' % k, '%s.sort(half)' % L, Seq(sorted(l, key=lambda x: x // 2)))
            add('sort-preorder-parity|%s' % k, '%s.sort(par)' % L, Seq(sorted(l, key=lambda x: x % 2)))
        if 1 <= len(l) <= 5:
            s = sorted(l)
            for n in range(0, len(l) + 2):
                add('n_smallest|%s|%d' % (k, n), '%s.n_smallest(%d).sort()' % (L, n), Seq(s[:n]) if n <= len(l) else pred('val_or_err_seq', s))
                add('n_largest|%s|%d' % (k, n), '%s.n_largest(%d).sort()' % (L, n), Seq(s[len(l) - n:]) if n <= len(l) else pred('val_or_err_seq', s))
            for n in range(0, len(l)):
                add('nth_smallest|%s|%d' % (k, n), '%s.nth_smallest(%d)' % (L, n), pred('one_of_vals', s[n], s[n - 1] if n else None))
                add('nth_largest|%s|%d' % (k, n), '%s.nth_largest(%d)' % (L, n), pred('one_of_vals', s[len(l) - 1 - n], s[len(l) - n] if n else None))
            add('max-min|%s' % k, '(%s.max(), %s.min())' % (L, L), (max(l), min(l)))
            if len(l) % 2 == 1:
                add('median|%s' % k, '%s.median()' % L, pred('median_of', tuple(s)))
    # stability: (key, tag) pairs sorted by key only keep their input order within a key
    mx = 4 if tier == 'quick' else 5
    for n in range(0, mx + 1):
        for keys in itertools.product((0, 1), repeat=n):
            pairs = [(k, i) for i, k in enumerate(keys)]
            P = '[%s]' % ', '.join('(%d, %d)' % p for p in pairs) if pairs else '[(0, 0)].take(0)'
            add('stable|%s' % ''.join(map(str, keys)), '%s.sort(kcmp)' % P, Seq(sorted(pairs, key=lambda p: p[0])))
    for l in structured_lists(tier):
        k = 'n%d:%s' % (len(l), ','.join(map(str, l[:24])))
        add('sort-structured|%s' % k, '%s.sort(icmp) == %s' % (lit(l), lit(sorted(l))), True)
        add('sort-structured-half|%s' % k, '%s.sort(half) == %s' % (lit(l), lit(sorted(l, key=lambda x: x // 2))), True)
    return out


@predicate
def val_or_err_seq(v, s):
    ok = isinstance(v, Err) or (isinstance(v, Seq) and v.items == list(s))
    return ok, '' if ok else 'wrong-value'


@predicate
def one_of_vals(v, a, b):
    # the book does not say whether the rank is zero- or one-based
    ok = (v == a) or (b is not None and v == b)
    return ok, '' if ok else 'wrong-value'


@predicate
def median_of(v, s):
    ok = v == s[len(s) // 2]
    return ok, '' if ok else 'wrong-value'


# ----------------------------------------------------------------------------- failing comparator at the k-th comparison
HUGE = 1 << 40


def fail_lists(tier):
    ls = [l for l in sort_lists(tier) if len(l) >= 4 and (tier != 'quick' or len(l) == 6)][:: (40 if tier == 'quick' else 60)]
    ls += [l for l in structured_lists(tier) if len(l) <= (21 if tier == 'quick' else 40)][:: (7 if tier == 'quick' else 1)]
    # long inputs with runs: the run-detection phase of the merge sort compares too (ascending then a long descending run, and the reverse)
    ls += [list(range(1, 11)) + list(range(40, 20, -1)), list(range(30, 18, -1)) + list(range(1, 13))]
    return ls


def _fail_sweep(arg):
    """for one list: the comparator call trace, then a violation at every k and an error at every distinct compared pair"""
    fails = []
    l, kind = arg if isinstance(arg, tuple) else (arg, 'sort')
    call = {'sort': '.sort(%s)', 'n_largest': '.n_largest(3, %s)', 'n_smallest': '.n_smallest(4, %s)'}[kind]
    body = ('%s.map((x: int)->{ x * 1 }).to_array()' % lit(l)) + call % '(a: int, b: int)->{ let d = display(to_str(a) + " " + to_str(b)); cmp(a, b) }'
    plain = ('%s.map((x: int)->{ x * 1 }).to_array()' % lit(l)) + call % 'icmp'

    def job(expr, limits):
        steps = [{'feed': PRELUDE}, {'feed': 'let c0 = ()->{ %s };' % expr}, {'op': 'inst'}, {'op': 'stats'}, {'op': 'callv', 'name': 'c0', 'keep': True},
                 {'op': 'drop_results'}, {'op': 'drop_scope'}]
        return {'id': 0, 'limits': limits, 'steps': steps, 'dump': {'max_items': 300}}

    def run(expr, limits):
        j = job(expr, limits)
        rep = run_job(j, timeout=30.0)
        if 'fatal' in rep:
            return None, None, None, None, j, rep['fatal']
        rs = rep['replies']
        v = decode(rs[4]['v'])
        return v, rs[4]['c']['out'], (rs[3]['c']['bytes'], rs[5]['c']['bytes']), rs[-1].get('final_bytes'), j, None

    sig0 = 'C19|failing-comparator%s|n%d:%s' % ('' if kind == 'sort' else '-' + kind, len(l), ','.join(map(str, l[:24])))
    case = {'list': l}
    v, out, lv, fin, j, fatal = run(body, {'size': HUGE, 'calls': HUGE})
    if fatal or not isinstance(v, Seq):
        fails.append((sig0 + '|trace-run|crash', case, 'a sorted sequence', repr(v or fatal), j))
        return fails, 0
    pairs = [tuple(int(x) for x in ln.split()) for ln in out.split('\n') if ln]
    if kind == 'sort' and v.items != sorted(l):
        fails.append((sig0 + '|trace-run|wrong-value', case, sorted(l), repr(v), j))
    C = len(pairs)
    evals = 1
    # (a) violation at the k-th comparator call: calls before the sort = 1 (unit) + len (map callbacks)
    base_calls = 1 + len(l)
    for k in range(1, C + 1):
        v, out, lv, fin, j, fatal = run(plain, {'size': HUGE, 'calls': base_calls + k})
        evals += 1
        sig = sig0 + '|violation-at-%d' % k
        if fatal:
            fails.append((sig + '|fatal:' + fatal, case, 'MaximumUDCall', fatal, j)); continue
        if not (isinstance(v, Viol) and v.kind == 'MaximumUDCall'):
            fails.append((sig + '|' + ('panic@' + v.loc if isinstance(v, Panic) else 'swallowed-violation'), case, 'Viol(MaximumUDCall)', repr(v), j)); continue
        if lv[0] != lv[1]:
            fails.append((sig + '|leak(%+d)' % (lv[1] - lv[0]), case, 'accounted level back to %d' % lv[0], lv[1], j))
        if fin != 0:
            fails.append((sig + '|nonzero-after-drop', case, 0, fin, j))
    # (b) error value when a given pair is compared
    for (pa, pb) in sorted(set(pairs)):
        expr = ('%s.map((x: int)->{ x * 1 }).to_array()' % lit(l)) + call % ('(a: int, b: int)->{ if(a == %d && b == %d, error("poison"), cmp(a, b)) }' % (pa, pb))
        v, out, lv, fin, j, fatal = run(expr, {'size': HUGE})
        evals += 1
        sig = sig0 + '|error-at-%d,%d' % (pa, pb)
        if fatal:
            fails.append((sig + '|fatal:' + fatal, case, "Err('poison')", fatal, j)); continue
        if not (isinstance(v, Err) and v.msg == 'poison'):
            fails.append((sig + '|' + ('panic@' + v.loc if isinstance(v, Panic) else 'swallowed-error'), case, "Err('poison')", repr(v), j)); continue
        if lv[0] != lv[1]:
            fails.append((sig + '|leak(%+d)' % (lv[1] - lv[0]), case, 'accounted level back to %d' % lv[0], lv[1], j))
        if fin != 0:
            fails.append((sig + '|nonzero-after-drop', case, 0, fin, j))
    return fails, evals


def run(tier):
    rep = Report(PROP, tier, 'model_checking',
                 'laws (eq equivalence, eq=>hash, hash range, cmp antisymmetric/transitive/lexicographic, relational operators, min/max, '
                 'to_str shape, format(x,"")==to_str(x)) over all same-type pairs and triples of complete small universes per static type; '
                 'the format-specifier grammar (fill x align x sign x # x 0 x width x grouping x precision x mode) against Python\'s identical '
                 'grammar; sort / order statistics on all lists over {0,1,2} up to a length and structured long lists against a stable '
                 'reference; a comparator failing (violation, error) at the k-th comparison for every k with the accounted level as witness; '
                 'non-trivial = distinct cases')
    opts = {'prelude': [PRELUDE], 'dump': {'max_items': 300}}
    for name, cs in (('laws', law_cases(tier)), ('format', format_cases(tier)), ('sort', sort_cases(tier))):
        rep.bounds[name] = len(cs)
        run_table(rep, cs, opts, chunk=200)
    fl = fail_lists(tier)
    rep.bounds['failing_comparator_lists'] = len(fl)
    tot = 0
    heaps = [l for l in fl if 4 <= len(l) <= 12][:: (3 if tier == 'quick' else 1)]
    fl = [(l, 'sort') for l in fl] + [(l, 'n_largest') for l in heaps] + [(l, 'n_smallest') for l in heaps]
    for l, (fails, evals) in zip(fl, pmap(_fail_sweep, fl)):
        tot += evals
        rep.evaluations += evals
        rep.nontrivial_count += evals
        rep.outcome('fault-sweep', evals)
        for sig, case, exp, act, job in fails:
            rep.fail(Failure(PROP, sig, case, exp, act, job))
    rep.bounds['failing_comparator_runs'] = tot
    rep.states = rep.evaluations
    rep.transitions = rep.evaluations
    rep.traces = rep.evaluations
    rep.assumptions = ['Python format() shares the documented specifier grammar; facets where the book is silent (grouping with non-decimal '
                       'modes, # without a mode, digit case of X, shape of scientific notation, rank base of nth_smallest) are not compared',
                       'strings are right-aligned by default (book)',
                       'the accounted byte level (hook) is the witness for lost / duplicated / leaked elements after a failed sort']
    return rep.finish()


def replay(rec):
    if rec.get('job'):
        return replay_table(rec)
    return 0
