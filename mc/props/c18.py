"""C18 — strings are code-point sequences; literals mean what they say.  E1 against Python str."""
import itertools
from ..core import Report, xint, xstr, Seq, Gen, Opt, Err
from ..table import run_table, replay_table, ERR, UNSPEC, pred, predicate, PREDICATES

PROP = 'C18'

SIGMA = ['a', 'B', ' ', 'é', 'ß', 'İ', 'K', '中', '\U0001F600', '̆', '\n']
SUB6 = ['a', 'B', 'é', '中', '\U0001F600', '̆']
LONG = ['aaa', 'aaaa', 'abab', 'ababab', 'hello world', 'héllo wörld', 'abcdefghij', 'aéaéa',
        '中中中', '  a b  ', '\n a\n', 'a,b,,c', ',a,', ',,', 'xaax', '\U0001F600a\U0001F600',
        'İxİ', 'Straße', 'aBé中\U0001F600̆ \nßİK', 'mississippi',
        # titlecase letters (neither upper nor lower, with both mappings), alone and next to letters of either case; final sigma; ligatures
        '\u01c5', '\u1f88', '\u01c5a', 'A\u01c5', '\u1f88\u1f88', 'x\u01c8y', '\u01f2', '\u0391\u03a3', '\ufb01', '\u0149', '\u01f0']


def strings(tier):
    out = ['']
    mx = 2 if tier == 'quick' else 3
    for n in range(1, mx + 1):
        for t in itertools.product(SUB6, repeat=n):
            out.append(''.join(t))
    if tier != 'quick':
        for n in (1, 2):
            for t in itertools.product(SIGMA, repeat=n):
                s = ''.join(t)
                if s not in out:
                    out.append(s)
    else:
        for c in SIGMA:
            if c not in out:
                out.append(c)
    for s in LONG:
        if s not in out:
            out.append(s)
    return out


def idxs(n):
    return sorted(set([-n - 1, -n, -1, 0, 1, n - 1, n, n + 1, n + 5]))


@predicate
def val_or_err(v, want):
    from ..core import veq
    if isinstance(v, Err) or veq(v, want):
        return True, ''
    return False, 'wrong-value'


@predicate
def one_of(v, *wants):
    from ..core import veq
    for w in wants:
        if w == ERR:
            if isinstance(v, Err):
                return True, ''
        elif veq(v, w):
            return True, ''
    return False, 'wrong-value'


def probe(expr):
    """evaluate a string-producing expression and re-observe the result (a stale internal character
    table shows up in the follow-up operations, not in the call itself)"""
    return 'fn pr(r: str)->(str, int, Sequence<str>){ (r, r.len(), (r + "x").chars()) } pr(%s)' % expr


def probed(s):
    return (s, len(s), Seq(list(s + 'x')))


def py_find(s, n, start=0):
    i = s.find(n, start)
    return Opt(None, False) if i < 0 else Opt(i, True)


def cases(tier):
    S = strings(tier)
    out = []

    def add(sig, src, exp):
        out.append({'sig': 'C18|' + sig, 'src': src, 'exp': exp})

    needles1 = SIGMA
    for s in S:
        q = xstr(s)
        n = len(s)
        key = repr(s)
        add('len|%s' % key, 'len(%s)' % q, n)
        add('chars|%s' % key, 'chars(%s)' % q, Seq(list(s)))
        add('reverse|%s' % key, probe('reverse(%s)' % q), probed(s[::-1]))
        add('to_str|%s' % key, 'to_str(%s)' % q, s)
        add('hash-range|%s' % key, 'hash(%s)' % q, pred('int_in_range', 0, (1 << 64) - 1))
        add('hash-eq|%s' % key, 'hash(%s) == hash(%s + "")' % (q, q), True)
        add('upper|%s' % key, probe('upper(%s)' % q), probed(s.upper()))
        add('lower|%s' % key, probe('lower(%s)' % q), probed(s.lower()))
        add('is_upper|%s' % key, 'is_upper(%s)' % q, all(c.isupper() for c in s))
        add('is_lower|%s' % key, 'is_lower(%s)' % q, all(c.islower() for c in s))
        add('is_whitespace|%s' % key, 'is_whitespace(%s)' % q, all(c.isspace() for c in s))
        add('strip|%s' % key, probe('strip(%s)' % q), probed(s.strip(' \n')))
        add('lstrip|%s' % key, probe('lstrip(%s)' % q), probed(s.lstrip(' \n')))
        add('rstrip|%s' % key, probe('rstrip(%s)' % q), probed(s.rstrip(' \n')))
        stripset = 'aé'
        p = '(c: str)->{c == "a" || c == "é"}'
        add('strip-pred|%s' % key, probe('strip(%s, %s)' % (q, p)), probed(s.strip(stripset)))
        add('lstrip-pred|%s' % key, probe('lstrip(%s, %s)' % (q, p)), probed(s.lstrip(stripset)))
        add('rstrip-pred|%s' % key, probe('rstrip(%s, %s)' % (q, p)), probed(s.rstrip(stripset)))
        if n == 1:
            add('code_point|%s' % key, 'code_point(%s)' % q, ord(s))
            add('chr-code_point|%s' % key, 'chr(code_point(%s))' % q, s)
        else:
            add('code_point|%s' % key, 'code_point(%s)' % q, ERR)
        for k in (-1, 0, 1, 3):
            exp = probed(s * k) if k >= 0 else pred('one_of', ERR, probed(''))
            add('mul|%s|%d' % (key, k), probe('%s * %s' % (q, xint(k))), exp)
        for i in idxs(n):
            exp = s[i] if -n <= i < n else ERR
            add('get|%s|%d' % (key, i), '%s[%s]' % (q, xint(i)), exp if exp is ERR else exp)
            if exp is not ERR:
                add('get-probe|%s|%d' % (key, i), probe('%s[%s]' % (q, xint(i))), probed(exp))
            # substring from i to the end
            if 0 <= i <= n:
                add('substring1|%s|%d' % (key, i), probe('substring(%s, %s)' % (q, xint(i))), probed(s[i:]))
            else:
                add('substring1|%s|%d' % (key, i), probe('substring(%s, %s)' % (q, xint(i))), pred('val_or_err', probed(s[i:] if i > 0 else s[i:])))
            for j in idxs(n):
                src = probe('substring(%s, %s, %s)' % (q, xint(i), xint(j)))
                if 0 <= i <= j <= n:
                    add('substring|%s|%d|%d' % (key, i, j), src, probed(s[i:j]))
                else:
                    # out-of-range / reversed / negative bounds: an error value, or what list slicing gives
                    add('substring|%s|%d|%d' % (key, i, j), src, pred('val_or_err', probed(s[max(i, 0):j] if i >= 0 else s[i:j])))
        nd = list(needles1)
        if n <= 12:
            nd += sorted(set(s[i:i + 2] for i in range(max(n - 1, 0)))) + ['aa', 'ab', 'aé', 'éa', ',']
        for nee in dict.fromkeys(nd):
            nq = xstr(nee)
            nk = repr(nee)
            add('find|%s|%s' % (key, nk), 'find(%s, %s)' % (q, nq), py_find(s, nee))
            add('rfind|%s|%s' % (key, nk), 'rfind(%s, %s)' % (q, nq),
                Opt(None, False) if s.rfind(nee) < 0 else Opt(s.rfind(nee), True))
            add('contains|%s|%s' % (key, nk), 'contains(%s, %s)' % (q, nq), nee in s)
            add('starts_with|%s|%s' % (key, nk), 'starts_with(%s, %s)' % (q, nq), s.startswith(nee))
            add('ends_with|%s|%s' % (key, nk), 'ends_with(%s, %s)' % (q, nq), s.endswith(nee))
            add('remove_prefix|%s|%s' % (key, nk), probe('remove_prefix(%s, %s)' % (q, nq)), probed(s.removeprefix(nee)))
            add('remove_suffix|%s|%s' % (key, nk), probe('remove_suffix(%s, %s)' % (q, nq)), probed(s.removesuffix(nee)))
            for st in idxs(n):
                if 0 <= st <= n:
                    add('find3|%s|%s|%d' % (key, nk, st), 'find(%s, %s, %s)' % (q, nq, xint(st)), py_find(s, nee, st))
                    add('contains3|%s|%s|%d' % (key, nk, st), 'contains(%s, %s, %s)' % (q, nq, xint(st)), s.find(nee, st) >= 0)
                else:
                    add('find3|%s|%s|%d' % (key, nk, st), 'find(%s, %s, %s)' % (q, nq, xint(st)),
                        pred('one_of', ERR, Opt(None, False)) if st > n else pred('val_or_err', py_find(s, nee, max(st + n, 0) if st < 0 else st)))
            parts = s.split(nee)
            add('split|%s|%s' % (key, nk), 'split(%s, %s).to_array()' % (q, nq), Seq(parts))
            add('split-join|%s|%s' % (key, nk), probe('split(%s, %s).join(%s)' % (q, nq, nq)), probed(s))
            pa = s.partition(nee)
            add('partition|%s|%s' % (key, nk), 'partition(%s, %s)' % (q, nq), (pa[0], pa[2]))
            rp = s.rpartition(nee)
            add('rpartition|%s|%s' % (key, nk), 'rpartition(%s, %s)' % (q, nq), (rp[0], rp[2]))
            for new in ('', 'Z', 'éé'):
                add('replace|%s|%s|%s' % (key, nk, repr(new)), probe('replace(%s, %s, %s)' % (q, nq, xstr(new))), probed(s.replace(nee, new)))
                for cnt in (0, 1, 2, 5):
                    add('replace4|%s|%s|%s|%d' % (key, nk, repr(new), cnt), probe('replace(%s, %s, %s, %d)' % (q, nq, xstr(new), cnt)),
                        probed(s.replace(nee, new, cnt)))
            for cnt in (-1, -2):
                # a negative count is an out-of-range request (it used to prefix the needle to every part)
                add('replace4|%s|%s|%r|%d' % (key, nk, 'Z', cnt), 'replace(%s, %s, "Z", %d)' % (q, nq, cnt), ERR)
            for cnt in (0, 1, 2, 5):
                # the book says "at most n strings"; python's maxsplit convention yields n+1: both accepted,
                # but the pieces must be exactly the pieces of one of the two conventions
                a1 = Seq(s.split(nee, cnt))
                a2 = Seq(s.split(nee, cnt - 1)) if cnt >= 1 else Seq([s])
                add('split3|%s|%s|%d' % (key, nk, cnt), 'split(%s, %s, %d).to_array()' % (q, nq, cnt), pred('one_of', a1, a2))
                b1 = Seq(s.rsplit(nee, cnt))
                b2 = Seq(s.rsplit(nee, cnt - 1)) if cnt >= 1 else Seq([s])
                add('rsplit|%s|%s|%d' % (key, nk, cnt), 'rsplit(%s, %s, %d)' % (q, nq, cnt), pred('one_of', b1, b2))
    # binary: concatenation, comparison, join over pairs of a smaller pool
    small = [s for s in S if len(s) <= 2][:60] + LONG[:6]
    small = list(dict.fromkeys(small))
    if tier == 'quick':
        small = small[:24] + LONG[:4]
    for a in small:
        for b in small:
            qa, qb = xstr(a), xstr(b)
            k = '%r|%r' % (a, b)
            add('add|' + k, probe('%s + %s' % (qa, qb)), probed(a + b))
            add('cmp|' + k, 'cmp(%s, %s)' % (qa, qb), (a > b) - (a < b))
            add('eq|' + k, '(%s == %s, %s != %s, %s < %s, %s <= %s)' % (qa, qb, qa, qb, qa, qb, qa, qb), (a == b, a != b, a < b, a <= b))
            add('hash-law|' + k, '(%s == %s) && (hash(%s) != hash(%s))' % (qa, qb, qa, qb), False)
            add('join|' + k, probe('[%s, %s, %s].join(%s)' % (qa, qb, qa, qb)), probed(b.join([a, b, a])))
    for a in small:
        add('join-default|%r' % a, probe('[%s, %s].join()' % (xstr(a), xstr(a))), probed(a + a))
        add('format_replace|%r' % a, probe('format_replace(%s, (c: str)->{"<" + c + ">"})' % xstr('é%a' + a + '%中z%%')),
            pred('val_or_err', probed('é<a>' + fr_model(a + '%中z%%'))))
    return out


def fr_model(t):
    """every '%c' becomes <c>"""
    out, i = [], 0
    while i < len(t):
        if t[i] == '%' and i + 1 < len(t) and t[i + 1] != '\n':
            out.append('<' + t[i + 1] + '>')
            i += 2
        else:
            out.append(t[i])
            i += 1
    return ''.join(out)


# ------------------------------------------------------------------ literals
PIECES = [
    ('a', 'a', 'a', 'a'), ('é', 'é', 'é', 'é'), ('\U0001F600',) * 4,
    ('\\n', '\n', '\\n', '\n'), ('\\t', '\t', '\\t', '\t'), ('\\\\', '\\', '\\\\', '\\'),
    ('\\0', '\0', '\\0', '\0'), ('\\r', '\r', '\\r', '\r'),
    ('\\u{e9}', 'é', '\\u{e9}', 'é'), ('\\u{1F600}', '\U0001F600', '\\u{1F600}', '\U0001F600'),
    ('\\u{41}', 'A', '\\u{41}', 'A'),
    ('#', '#', '#', '#'), (' ', ' ', ' ', ' '),
]
# (source piece, plain meaning, raw meaning, f-string meaning); None = not usable in that form
BRACES = [('{{', '{{', '{{', '{'), ('}}', '}}', '}}', '}'), ('{x}', '{x}', '{x}', '7'), ('{x:>3}', '{x:>3}', '{x:>3}', '  7'),
          ('{x + 1}', '{x + 1}', '{x + 1}', '8'), ('{s}', '{s}', '{s}', 'qé')]
BAD = ['\\q', '\\u{110000}', '\\u{d800}', '\\u{}', '\\u{1234567}']


def literal_cases(tier):
    out = []
    mx = 2 if tier == 'quick' else 3
    pieces = PIECES + BRACES
    prelude = 'let x = 7; let s = "qé";'
    for n in range(0, mx + 1):
        for combo in itertools.product(range(len(pieces)), repeat=n):
            if n == 3 and tier != 'quick' and sum(1 for c in combo if c >= len(PIECES)) > 1 and combo[0] != combo[1]:
                pass
            for quote in ('"', "'"):
                for fence in (0, 1, 2):
                    for prefix in ('', 'r', 'f'):
                        src = ''.join(pieces[c][0] for c in combo)
                        if prefix == 'f' and '\\u' in src:
                            continue  # \u{..} inside an f-string collides with interpolation braces: unspecified
                        if prefix == 'r':
                            val = ''.join(pieces[c][2] for c in combo)
                        elif prefix == 'f':
                            val = ''.join(pieces[c][3] for c in combo)
                        else:
                            val = ''.join(pieces[c][1] for c in combo)
                        other = "'" if quote == '"' else '"'
                        for extra, extra_val in (('', ''), (other, other)):
                            if extra and (n != 1 or fence != 0):
                                continue
                            body = src + extra
                            lit = prefix + '#' * fence + quote + body + quote + '#' * fence
                            # a raw literal that ends in a backslash before the quote is still terminated by the quote;
                            # a non-raw one would read \" as an escape: skip the ambiguous spelling
                            if prefix != 'r' and body.endswith('\\') and not body.endswith('\\\\'):
                                continue
                            sig = 'C18|literal|%s' % lit
                            out.append({'sig': sig, 'src': '%s fn pr(r: str)->(str, int){ (r, r.len()) } pr(%s)' % (prelude, lit),
                                        'exp': (val + extra_val, len(val + extra_val))})
    # escaped quotes of the same kind
    for prefix in ('', 'f'):
        out.append({'sig': 'C18|literal|esc-dq|' + prefix, 'src': prefix + '"a\\"b"', 'exp': 'a"b'})
        out.append({'sig': 'C18|literal|esc-sq|' + prefix, 'src': prefix + "'a\\'b'", 'exp': "a'b"})
        out.append({'sig': 'C18|literal|esc-sq-in-dq|' + prefix, 'src': prefix + '"a\\\'b"', 'exp': "a'b"})
        out.append({'sig': 'C18|literal|fence-quote|' + prefix, 'src': prefix + '#"a"b"#', 'exp': 'a"b'})
        out.append({'sig': 'C18|literal|fence2-quote|' + prefix, 'src': prefix + '##"a"#b"##', 'exp': 'a"#b'})
    out.append({'sig': 'C18|literal|raw-backslash', 'src': 'r"a\\nb\\\\"', 'exp': 'a\\nb\\\\'})
    # f-string equals the join of to_str / format of its parts
    for e, spec in (('x', None), ('x', '>4'), ('x', '04'), ('1.5', None), ('s', None), ('s', '*^7'), ('[1, 2]', None), ('(x, s)', None), ('x == 7', None)):
        if spec is None:
            out.append({'sig': 'C18|fstring-law|%s' % e, 'src': 'let x = 7; let s = "qé"; f"<{%s}>" == ["<", to_str(%s), ">"].join()' % (e, e), 'exp': True})
        else:
            out.append({'sig': 'C18|fstring-law|%s:%s' % (e, spec), 'src': 'let x = 7; let s = "qé"; f"<{%s:%s}>" == ["<", format(%s, "%s"), ">"].join()' % (e, spec, e, spec), 'exp': True})
    return out


def bad_literal_cases():
    """spellings the literal rules reject: must be a compile error (never a crash, never accepted)"""
    out = []
    for b in BAD:
        for prefix in ('', 'f'):
            out.append({'sig': 'C18|bad-literal|%s%s' % (prefix, b), 'decl': 'let NAME = ()->{ %s"a%sb" };' % (prefix, b), 'exp': 'CERR'})
    return out


@predicate
def int_in_range(v, lo, hi):
    ok = isinstance(v, int) and not isinstance(v, bool) and lo <= v <= hi
    return ok, '' if ok else 'out-of-range'


OPTS = {'dump': {'max_items': 400}}


def run(tier):
    from ..core import CErr, pmap, chunks, Failure
    from .. import table
    rep = Report(PROP, tier, 'model_checking',
                 'every string builtin x every string of the alphabet pool x every index/needle argument (complete product), '
                 'compared with Python str (code points); every literal spelling of <=k pieces x quote x fence x prefix compared '
                 'with a reference unescaper; non-trivial = distinct (operation, arguments)')
    cs = cases(tier)
    lits = literal_cases(tier)
    rep.bounds = {'strings': len(strings(tier)), 'operation_cases': len(cs), 'literal_cases': len(lits)}
    run_table(rep, cs, OPTS, chunk=300)
    run_table(rep, lits, OPTS, chunk=300)
    # rejected spellings: judged here (the table engine treats a compile error as a failure)
    bad = bad_literal_cases()
    from ..core import run_units
    outs = run_units([('c%d' % i, table.unit_src(c, 'c%d' % i)) for i, c in enumerate(bad)])
    for c, o in zip(bad, outs):
        rep.evaluations += 1
        rep.nontrivial.add(c['sig'])
        rep.outcome(table.classify(o.v))
        if not isinstance(o.v, CErr):
            rep.fail(Failure(PROP, c['sig'] + '|accepted-should-reject' if not isinstance(o.v, (table.Panic, table.Fatal)) else c['sig'] + '|crash',
                             c, 'compile error', o.v, core_job(c)))
    rep.states = len(cs) + len(lits) + len(bad)
    rep.transitions = rep.evaluations
    rep.traces = rep.evaluations
    rep.assumptions = ['Python str (code points) and str.upper/lower are the reference; case mapping restricted to the alphabet',
                       'negative in-range indices follow list indexing; out-of-range slices may be an error or the clamped slice',
                       'split/rsplit with a count accept both "n pieces" (book) and "n splits" conventions']
    return rep.finish()


def core_job(c):
    from .. import core, table
    return core.unit_job((), 'c0', table.unit_src(c, 'c0'))


def replay(rec):
    return replay_table(rec, OPTS)
