"""C01 — accepted programs never go wrong; values have the shape of their static type.
Every program below is first offered to the compiler; every one the COMPILER accepts (whatever the reference relation says) is
instantiated and executed, each produced value is (a) checked against the static type the compiler reports for its binding
(conformance of the dumped dynamic shape) and (b) consumed by a type-directed eliminator: code generated from the static type
that touches every component with natively typed operations, so that a value of the wrong dynamic tag panics instead of
passing silently.  No panic, abort, hang or internal error may occur; errors and violations are fine.
 A. the (required, supplied) assignment matrix of C04 in every syntactic position, with the value flowing through the
    position (returned, read back from the field / variant / default);
 B. generic calls (bodies return their arguments in rotated order), inferred-type forms, calls through function values,
    compound construction;
 C. the standard-library surface: every static overload on type-directed argument pools, under no limits and under tight
    limits;
 D. single-token mutants of the shipped scripts and book examples that still compile: instantiated and `main` run under
    limits."""
import itertools, hashlib, re
from ..core import (Report, Failure, run_job, run_units, mk_unit_job, pmap, chunks, decode, Machinery, CErr, Panic, Viol, Err, Fatal, HostErr,
                    Opt, Un, Seq, Gen, Stk, Map, XSet, Fn, Native, norm_loc)
from ..model import types as T
from ..model.types import render, witness


def writable(t):
    return T.writable(t) and not T.has_var(t)
from .. import stdlib
from . import c04

PROP = 'C01'
nat, cmp_, tup, fn = c04.nat, c04.cmp_, c04.tup, c04.fn

STRUCTS = {   # name -> (kind, generic names, [(field, type)])
    'S0': ('struct', [], [('a', 'int')]),
    'S1': ('struct', ['T'], [('a', ('var', 'T'))]),
    'S2': ('struct', ['A', 'B'], [('a', ('var', 'A')), ('b', ('var', 'B'))]),
    'U1': ('union', ['T'], [('v', ('var', 'T')), ('n', 'int')]),
    'U0': ('union', [], [('i', 'int'), ('s', 'str')]),
    'DD': ('struct', ['T'], [('a', ('var', 'T')), ('b', ('var', 'T'))]),
    'UU': ('union', ['T'], [('l', ('var', 'T')), ('r', ('var', 'T'))]),
}
EXTRA_DECLS = 'struct DD<T>(a: T, b: T)\nunion UU<T>(l: T, r: T)\n'


# ----------------------------------------------------------------------------- conformance of a dumped value to a model type
def conforms(v, t):
    """None when the dynamic shape of v is one a value of static type t can have, else a short reason"""
    if isinstance(v, Err):
        return None
    if isinstance(v, (Viol, Panic, Fatal, HostErr, CErr)):
        return 'not-a-value'
    if isinstance(v, Native) and v.name == '<deep>':
        return None
    if t == 'unk':
        return 'value-of-the-bottom-type'
    if t == 'int':
        return None if (isinstance(v, int) and not isinstance(v, bool)) else 'expected-int'
    if t == 'float':
        return None if isinstance(v, float) else 'expected-float'
    if t == 'str':
        return None if isinstance(v, str) else 'expected-str'
    if t == 'bool':
        return None if isinstance(v, bool) else 'expected-bool'
    k = t[0]
    if k == 'var':
        return 'free-type-variable-in-static-type'
    if k == 'nat':
        n, a = t[1], t[2]
        cls = {'Sequence': Seq, 'Generator': Gen, 'Stack': Stk, 'Set': XSet, 'Optional': Opt, 'Mapping': Map}.get(n)
        if cls is None:
            return None
        if not isinstance(v, cls):
            return 'expected-' + n
        if n == 'Optional':
            return conforms(v.v, a[0]) if v.has else None
        if n == 'Mapping':
            for kk, vv in v.entries:
                r = conforms(kk, a[0]) or conforms(vv, a[1])
                if r:
                    return r
            return None
        for x in v.items:
            r = conforms(x, a[0])
            if r:
                return r
        return None
    if k == 'tup':
        if not isinstance(v, tuple) or len(v) != len(t[1]):
            return 'expected-tuple-of-%d' % len(t[1])
        for x, tt in zip(v, t[1]):
            r = conforms(x, tt)
            if r:
                return r
        return None
    if k in ('fn', 'named'):
        return None if isinstance(v, Fn) else 'expected-function'
    if k == 'cmp':
        sd = STRUCTS.get(t[1]) or LOCAL_STRUCTS.get(t[1])
        if sd is None:
            return None
        kind, gens, fields = sd
        b = dict(zip(gens, t[2]))
        if kind == 'struct':
            if not isinstance(v, tuple) or len(v) != len(fields):
                return 'expected-struct-' + t[1]
            for x, (fname, ft) in zip(v, fields):
                r = conforms(x, T.subst(ft, b))
                if r:
                    return r
            return None
        if not isinstance(v, Un) or not (0 <= v.idx < len(fields)):
            return 'expected-union-' + t[1]
        return conforms(v.v, T.subst(fields[v.idx][1], b))
    return None


LOCAL_STRUCTS = {}


def from_hook(s):
    """type string reported by the static_type hook -> model type (None when it cannot be parsed)"""
    try:
        p = stdlib.parse_type(s)
    except Exception:
        return None

    def cv(p):
        if p[0] == 'unknown':
            return 'unk'
        if p[0] == 'tuple':
            return ('tup', tuple(cv(x) for x in p[1]))
        if p[0] == 'fn':
            return ('fn', tuple(cv(x) for x in p[1]), cv(p[2]))
        name, args = p[1], p[2]
        if name in ('int', 'float', 'str', 'bool') and not args:
            return name
        if name in ('Sequence', 'Generator', 'Stack', 'Set', 'Optional', 'Mapping'):
            return ('nat', name, tuple(cv(x) for x in args))
        if name in STRUCTS or name in LOCAL_STRUCTS:
            return ('cmp', name, tuple(cv(x) for x in args))
        if not args and re.fullmatch(r'[A-Z][A-Z0-9]?', name):
            return ('var', name)
        return ('nat', name, tuple(cv(x) for x in args))     # other library types: shape not checked
    return cv(p)


# ----------------------------------------------------------------------------- type-directed eliminator
def use(t, e, d=0):
    """an expression of type str that consumes e at static type t with natively typed operations"""
    q = 'q%d' % d
    if t == 'int':
        return 'to_str(%s + 0)' % e
    if t == 'float':
        return 'to_str(%s + 0.0)' % e
    if t == 'str':
        return '(%s + "")' % e
    if t == 'bool':
        return 'to_str(%s && true)' % e
    if t == 'unk' or isinstance(t, str):
        return '"?"'
    k = t[0]
    if k == 'nat':
        n, a = t[1], t[2]
        if n in ('Sequence', 'Generator', 'Stack', 'Set') and writable(a[0]):
            src = e if n in ('Sequence', 'Generator') else '%s.to_array()' % e
            return '%s.map((%s: %s)->{ %s }).to_array().len().to_str()' % (src, q, render(a[0]), use(a[0], q, d + 1))
        if n == 'Optional' and writable(a[0]):
            return '(%s.map((%s: %s)->{ %s }) || "none")' % (e, q, render(a[0]), use(a[0], q, d + 1))
        if n == 'Mapping' and writable(a[1]) and writable(a[0]):
            return '(%s.values().map((%s: %s)->{ %s }).to_array().len().to_str() + %s.keys().map((%s: %s)->{ %s }).to_array().len().to_str())' % (
                e, q, render(a[1]), use(a[1], q, d + 1), e, q, render(a[0]), use(a[0], q, d + 1))
        if n in ('Sequence', 'Stack', 'Set', 'Mapping'):
            return '%s.len().to_str()' % e
        return '"?"'
    if k == 'tup':
        return '(' + ' + '.join(['""'] + [use(x, '%s::item%d' % (e, i), d + 1) for i, x in enumerate(t[1])]) + ')'
    if k == 'cmp':
        sd = STRUCTS.get(t[1])
        if sd is None:
            return '"?"'
        kind, gens, fields = sd
        b = dict(zip(gens, t[2]))
        if kind == 'struct':
            return '(' + ' + '.join(['""'] + [use(T.subst(ft, b), '%s::%s' % (e, fname), d + 1) for fname, ft in fields]) + ')'
        parts = []
        for fname, ft in fields:
            ft = T.subst(ft, b)
            if writable(ft):
                parts.append('(%s?:%s.map((%s: %s)->{ %s }) || "-")' % (e, fname, q, render(ft), use(ft, q, d + 1)))
        return '(' + ' + '.join(['""'] + parts) + ')'
    if k in ('fn', 'named'):
        ps = T.fparams(t)
        lo, hi = T.arities(t)
        ws = [witness(p) for p in ps[:lo]]
        if any(w is None for w in ws):
            return '"?"'
        return use(T.fret(t), '%s(%s)' % (e, ', '.join(ws)), d + 1)
    return '"?"'


# ----------------------------------------------------------------------------- A. assignment matrix, executed
def flow_programs(tier):
    """(label, text, [(binding, model type or None)]) — the value supplied at every position is read back"""
    req, sup = c04.universe(tier)
    out = []
    n = 0
    for R in req:
        if isinstance(R, tuple) and R[0] == 'named':
            continue
        r = render(R)
        for S in sup:
            W = witness(S)
            n += 1
            i = 'x%d' % n
            lab = '%s <- %s' % (r, render(S))
            if W is not None:
                out.append(('flow|let|' + lab, 'let v%s: %s = %s;' % (i, r, W), [('v' + i, R)]))
                out.append(('flow|arg|' + lab, 'fn fa%s(x: %s)->%s{ x } let va%s = fa%s(%s);' % (i, r, r, i, i, W), [('va' + i, R)]))
                out.append(('flow|field|' + lab, 'struct WS%s(x: %s) let vs%s = WS%s(%s)::x;' % (i, r, i, i, W), [('vs' + i, R)]))
                out.append(('flow|variant|' + lab, 'union WU%s(x: %s, y: int) let vu%s = WU%s::x(%s)!:x;' % (i, r, i, i, W), [('vu' + i, R)]))
                out.append(('flow|return|' + lab, 'fn fr%s()->%s{ %s } let vr%s = fr%s();' % (i, r, W, i, i), [('vr' + i, R)]))
                out.append(('flow|default|' + lab, 'fn fd%s(x: %s ?= %s)->%s{ x } let vd%s = fd%s();' % (i, r, W, r, i, i), [('vd' + i, R)]))
                out.append(('flow|lambda-default|' + lab, 'let ld%s = (x: %s ?= %s)->{ x }; let vld%s = ld%s();' % (i, r, W, i, i), [('vld' + i, R)]))
                out.append(('flow|lambda-return|' + lab, 'let vl%s: ()->(%s) = ()->{ %s }; let vlr%s = vl%s();' % (i, r, W, i, i), [('vlr' + i, R)]))
                out.append(('flow|in-seq|' + lab, 'let vq%s: Sequence<%s> = [%s];' % (i, r, W), [('vq' + i, nat('Sequence', R))]))
                if writable(S) and not (isinstance(S, tuple) and S[0] == 'named'):
                    s = render(S)
                    out.append(('flow|p-return|' + lab, 'fn hr%s(h: %s)->%s{ h } let vh%s = hr%s(%s);' % (i, s, r, i, i, W), [('vh' + i, R)]))
                    out.append(('flow|p-let|' + lab, 'fn hl%s(h: %s)->%s{ let v: %s = h; v } let vg%s = hl%s(%s);' % (i, s, r, r, i, i, W), [('vg' + i, R)]))
    return out


def gsig_decls():
    bodies = {'gq_g2': 'a1', 'gq_gs': 'if(true, a1[0], a0)', 'gq_go': '[a1]', 'gq_gp': '(a2, a1)', 'gq_gf': 'a1(a0)', 'gq_gc': 'if(true, a0::a, a1)',
              'gq_gc2': 'S2(a2, a1)', 'gq_gt': 'mapping<int>().set(1, a0::item1).set(2, a1)', 'gq_gm': 'if(true, a1.value(), a0[0].value())', 'gq_gr': 'if(true, a1(), a0())',
              'gq_gk': 'a0', 'gq_gh': '(x: T, y: T)->{ if(true, a0(y), a0(x)) }', 'gq_gz': '()->{ [a0] }'}
    out = ''
    for name, gens, params, ret in c04.GSIGS:
        out += 'fn %s<%s>(%s)->%s{ %s }\n' % (name, ', '.join(gens), ', '.join('a%d: %s' % (i, render(p)) for i, p in enumerate(params)), render(ret), bodies[name])
    return out


def derived_programs(tier):
    """C04's generic / inferred / call / construction programs: the static type comes from the hook"""
    out = []
    for fam, cs in (('generic', c04.generic_cases(tier)), ('inferred', c04.inferred_cases(tier)), ('call', c04.call_cases(tier)), ('construct', c04.construct_cases(tier))):
        for label, text, ok, probes in cs:
            m = re.findall(r'let (\w+)(?:: [^=]+)? = ', text)
            binds = [(b, None) for b in m]
            out.append(('%s' % label, text, binds))
    return out


# ----------------------------------------------------------------------------- execution
def _exec_chunk(args):
    """compile every program on one scope; instantiate; read every binding of the accepted ones with its static type; then consume
    every value with its eliminator on a second scope level (a second feed)"""
    pre, progs = args
    steps = [{'feed': T.DECLS + EXTRA_DECLS + pre}]
    for label, text, binds in progs:
        steps.append({'feed': text})
    job = {'id': 0, 'limits': {'depth': 400, 'search': 100000}, 'dump': {'max_items': 12}, 'steps': steps}
    rep = run_job(job, timeout=60.0)
    if 'fatal' in rep:
        if len(progs) == 1:
            return [('fatal', rep['fatal'], {})]
        h = len(progs) // 2
        return _exec_chunk((pre, progs[:h])) + _exec_chunk((pre, progs[h:]))
    rs = rep['replies']
    if 'ok' not in rs[0]['v']:
        raise Machinery('declarations rejected: %r' % rs[0]['v'])
    verdict = []
    for r in rs[1:]:
        v = r['v']
        verdict.append('ok' if 'ok' in v else ('cerr' if 'cerr' in v else 'panic:' + norm_loc(v.get('panic', {}).get('loc', '')) + ' ' + v.get('panic', {}).get('msg', '')[:80]))
    accepted = [p for p, vd in zip(progs, verdict) if vd == 'ok']
    results = {}
    if accepted:
        res = _run_accepted(pre, accepted)
        results = res
    out = []
    for p, vd in zip(progs, verdict):
        if vd == 'ok':
            out.append(('ok',) + results.get(p[0], ('missing', {})))
        else:
            out.append((vd, '', {}))
    return out


def _run_accepted(pre, progs):
    """returns {label: (inst verdict, {binding: (value, static type string)})}"""
    steps = [{'feed': T.DECLS + EXTRA_DECLS + pre}] + [{'feed': text} for label, text, binds in progs] + [{'op': 'inst'}]
    names = []
    for label, text, binds in progs:
        for b, t in binds:
            steps.append({'op': 'get', 'name': b}); names.append((label, b))
    steps.append({'op': 'types', 'names': [b for l, b in names]})
    job = {'id': 0, 'limits': {'depth': 400, 'search': 100000}, 'dump': {'max_items': 12}, 'steps': steps}
    rep = run_job(job, timeout=60.0)
    if 'fatal' in rep:
        if len(progs) == 1:
            return {progs[0][0]: ('fatal:' + rep['fatal'], {})}
        h = len(progs) // 2
        a = _run_accepted(pre, progs[:h]); a.update(_run_accepted(pre, progs[h:]))
        return a
    rs = rep['replies']
    inst = rs[1 + len(progs)]['v']
    if 'ok' not in inst:
        # a panic / violation while instantiating: isolate the culprit
        if len(progs) == 1:
            return {progs[0][0]: ('inst:' + repr(decode(inst))[:200], {})}
        h = len(progs) // 2
        a = _run_accepted(pre, progs[:h]); a.update(_run_accepted(pre, progs[h:]))
        return a
    gets = rs[2 + len(progs):2 + len(progs) + len(names)]
    types = rs[2 + len(progs) + len(names)]['v'].get('types', {})
    out = {}
    for (label, b), r in zip(names, gets):
        out.setdefault(label, ('ok', {}))[1][b] = (decode(r['v']), types.get(b))
    for label, text, binds in progs:
        out.setdefault(label, ('ok', {}))
    return out


def _use_chunk(args):
    """second pass: programs + eliminators; returns {label: verdict}"""
    pre, items = args      # items: (label, text, [(binding, type)])
    units = []
    steps = [{'feed': T.DECLS + EXTRA_DECLS + pre}] + [{'feed': text} for label, text, uses in items]
    ukeys = []
    for label, text, uses in items:
        for b, t in uses:
            steps.append({'feed': 'let u_%s = %s;' % (b, use(t, b))}); ukeys.append((label, b))
    steps.append({'op': 'inst'})
    for label, b in ukeys:
        steps.append({'op': 'get', 'name': 'u_' + b})
    job = {'id': 0, 'limits': {'depth': 400, 'search': 100000}, 'dump': {'max_items': 4}, 'steps': steps}
    rep = run_job(job, timeout=60.0)
    if 'fatal' in rep:
        if len(items) == 1:
            return {items[0][0]: 'fatal:' + rep['fatal']}
        h = len(items) // 2
        a = _use_chunk((pre, items[:h])); a.update(_use_chunk((pre, items[h:])))
        return a
    rs = rep['replies']
    n0 = 1 + len(items)
    feeds = rs[n0:n0 + len(ukeys)]
    inst = rs[n0 + len(ukeys)]['v']
    out = {}
    if 'ok' not in inst:
        if len(items) == 1:
            return {items[0][0]: 'eliminator-inst:' + repr(decode(inst))[:200]}
        h = len(items) // 2
        a = _use_chunk((pre, items[:h])); a.update(_use_chunk((pre, items[h:])))
        return a
    gets = rs[n0 + len(ukeys) + 1:n0 + len(ukeys) + 1 + len(ukeys)]
    for (label, b), f, g in zip(ukeys, feeds, gets):
        if 'ok' not in f['v']:
            # the eliminator is generated from the static type: if it does not compile the static type is not what the hook says
            out[label] = 'eliminator-rejected:' + (f['v'].get('cerr', {}).get('class', '') or repr(f['v'])[:80])
            continue
        v = decode(g['v'])
        if isinstance(v, (Panic, Fatal, HostErr)):
            out[label] = 'eliminator:' + repr(v)[:200]
    return out


# ----------------------------------------------------------------------------- E. callable values with different arity windows
WIN_FUNCS = {   # name: (tag, n params, defaults of the trailing optional parameters)
    'wn0': (1, 2, ()), 'wn1': (2, 2, (7,)), 'wn2': (3, 2, (5, 7)), 'wm1': (4, 1, ()), 'wm1o': (5, 1, (3,)), 'wl0': (6, 2, ()), 'wl1': (7, 2, (7,)), 'wk1': (8, 1, ())}
WIN_DECLS = ('fn wn0(a: int, b: int)->int{ 1000 + a + 10 * b }\nfn wn1(a: int, b: int ?= 7)->int{ 2000 + a + 10 * b }\nfn wn2(a: int ?= 5, b: int ?= 7)->int{ 3000 + a + 10 * b }\n'
             'fn wm1(a: int)->int{ 4000 + a }\nfn wm1o(a: int ?= 3)->int{ 5000 + a }\nlet wl0 = (a: int, b: int)->{ 6000 + a + 10 * b };\nlet wl1 = (a: int, b: int ?= 7)->{ 7000 + a + 10 * b };\n'
             'let wk1 = (a: int)->{ 8000 + a };\nfn wpick<T>(a: T, b: T, c: bool)->T{ if(c, a, b) }\n')


def win_value(name, args):
    tag, n, dfl = WIN_FUNCS[name]
    if not (n - len(dfl) <= len(args) <= n):
        return None
    full = list(args) + list(dfl[len(dfl) - (n - len(args)):]) if len(args) < n else list(args)
    a = full[0]
    b = full[1] if n > 1 else 0
    return tag * 1000 + a + 10 * b


def window_programs(tier):
    """two callable values meet at a position that gives them one static type; the selected one is called with 0..3 arguments.
    (label, text, binding, the function actually called, the arguments)"""
    srcs = ['wn0', 'wn1', 'wn2', 'wm1', 'wm1o', 'wl0', 'wl1', 'wk1', 'cb2', 'cb1']
    a2s = ['wn0', 'wn1', 'wn2', 'wl0', 'wl1']
    a1s = ['wm1', 'wm1o', 'wn1', 'wn2', 'wk1']
    meets = [('array', lambda x, y, i: '[%s, %s][%d]' % (x, y, i)), ('if', lambda x, y, i: 'if(c%d, %s, %s)' % (i, y, x)), ('generic', lambda x, y, i: 'wpick(%s, %s, c%d)' % (y, x, i)),
             ('optional', lambda x, y, i: ('some(%s).value_or(%s)' % (x, y)) if i == 0 else ('wnone(%s).value_or(%s)' % (x, y))),
             ('tuple', lambda x, y, i: '[(%s, 1), (%s, 2)][%d]::item0' % (x, y, i)), ('push', lambda x, y, i: '[%s].push(%s)[%d]' % (x, y, i))]
    if tier == 'quick':
        meets = meets[:3] + meets[4:5]
    out = []
    n = 0
    for x in srcs:
        for y in srcs:
            for A2 in (a2s if 'cb2' in (x, y) else [None]):
                for A1 in (a1s if 'cb1' in (x, y) else [None]):
                    for mname, mk in meets:
                        for i in (0, 1):
                            sel = (x, y)[i]
                            actual = {'cb2': A2, 'cb1': A1}.get(sel, sel)
                            for args in ((), (1,), (1, 2), (1, 2, 3)):
                                n += 1
                                e = '(%s)(%s)' % (mk(x, y, i), ', '.join(map(str, args)))
                                text = 'fn wh%d(cb2: (int, int)->(int), cb1: (int)->(int), c0: bool, c1: bool)->int{ %s } let wr%d = wh%d(%s, %s, false, true);' % (
                                    n, e, n, n, A2 or 'wn0', A1 or 'wm1')
                                out.append(('windows|%s|%s,%s|cb2=%s|cb1=%s|sel=%d|args=%d' % (mname, x, y, A2, A1, i, len(args)), text, 'wr%d' % n, actual, args))
    return out


def _window_chunk(args):
    (progs,) = args
    steps = [{'feed': WIN_DECLS + 'fn wnone<T>(x: T)->Optional<T>{ if(false, some(x), none()) }\n'}] + [{'feed': t} for l, t, b, a, g in progs]
    job = {'id': 0, 'limits': {'depth': 400}, 'steps': steps}
    rep = run_job(job, timeout=60.0)
    if 'fatal' in rep:
        if len(progs) == 1:
            return [('fatal:' + rep['fatal'], None)]
        h = len(progs) // 2
        return _window_chunk((progs[:h],)) + _window_chunk((progs[h:],))
    rs = rep['replies']
    if 'ok' not in rs[0]['v']:
        raise Machinery('window declarations rejected: %r' % rs[0]['v'])
    verdict = ['ok' if 'ok' in r['v'] else ('cerr' if 'cerr' in r['v'] else 'panic:' + repr(r['v'])[:200]) for r in rs[1:1 + len(progs)]]
    out = []
    for p, vd in zip(progs, verdict):
        if vd != 'ok':
            out.append((vd, None)); continue
        # each accepted program runs on its own: a panic of one must not hide the others
        j = {'id': 0, 'limits': {'depth': 400}, 'steps': [steps[0], {'feed': p[1]}, {'op': 'inst'}, {'op': 'get', 'name': p[2]}]}
        r = run_job(j, timeout=30.0)
        if 'fatal' in r:
            out.append(('fatal:' + r['fatal'], None)); continue
        inst = r['replies'][2]['v']
        if 'ok' not in inst:
            out.append(('inst:' + repr(decode(inst))[:200], None)); continue
        out.append(('ok', decode(r['replies'][3]['v'])))
    return out


# ----------------------------------------------------------------------------- C. library surface
def probed(src, ret):
    """the call followed by an operation that needs the result to be well-formed at its static type: an integer that is zero must compare
    equal to 0 (division guards rely on it), a float must be finite, elements likewise"""
    SEQI = ('app', 'Sequence', [stdlib.INT])
    if ret == stdlib.INT:
        return '(()->{ let r = %s; if(r == 0, 0, 7 %% r) })()' % src
    if ret == stdlib.FLOAT:
        return '(()->{ let r = %s; r.floor() + r.ceil() })()' % src
    if ret == SEQI:
        return '(()->{ let r = %s; r.take(6).map((e: int)->{ if(e == 0, 0, 7 %% e) }).to_array() })()' % src
    if ret == ('app', 'Sequence', [stdlib.FLOAT]):
        return '(()->{ let r = %s; r.take(6).map((e: float)->{ e.floor() }).to_array() })()' % src
    if ret == ('app', 'Optional', [stdlib.INT]):
        return '(()->{ let r = %s; r.map((e: int)->{ if(e == 0, 0, 7 %% e) }) })()' % src
    return None


def library_cases(tier):
    sigs = stdlib.signatures()
    pools = stdlib.Pools(size=3 if tier != 'quick' else 2)
    edge = stdlib.Pools(ints=[0, -1, -(1 << 63), (1 << 63) - 1, 1 << 64, 2, 1, -(1 << 64), 1 << 31], floats=[0.0, -0.0, -1.5, 1e308, 5e-324, 1.0, 1e-300, 9007199254740993.0, 0.5],
                        strs=['', 'a', '\u00e9\u4e2d', 'ab', ' ', '0', 'A', '\U0001f600', 'a b'], size=9)
    out = []
    seen = set()
    skip_names = {'sleep', 'display', 'debug', 'now', 'random', 'error', 'assert'}
    for sig in sigs:
        if sig['kind'] != 'static' or sig['name'].startswith('_') or sig['name'] in skip_names:
            continue
        for bind, ptypes, opts, ret in stdlib.instantiate(sig, generic_choices=(stdlib.INT, stdlib.STR) if tier != 'quick' else (stdlib.INT,)):
            for ar in stdlib.arities(opts):
                pts = ptypes[:ar]
                if ar > 3:
                    continue
                for args in (stdlib.arg_tuples(pools, pts, 3 if tier != 'quick' else 2, 40 if tier != 'quick' else 8) or []):
                    src = stdlib.call_src(sig['name'], list(args))
                    if src in seen:
                        continue
                    seen.add(src)
                    out.append(src)
                    pr = probed(src, ret)
                    if pr:
                        out.append(pr)
                # scalar signatures: the complete product of edge values (representation boundaries, signed zero, extremes)
                if 1 <= ar <= 2 and all(p in (stdlib.INT, stdlib.FLOAT, stdlib.STR, stdlib.BOOL) for p in pts):
                    parts = [edge.get(p, 6 if ar == 2 else 9) for p in pts]
                    for args in itertools.product(*parts):
                        src = stdlib.call_src(sig['name'], list(args))
                        if src not in seen:
                            seen.add(src)
                            out.append(src)
                            pr = probed(src, ret)
                            if pr:
                                out.append(pr)
    # virtual sequences of astronomic length as the receiver of every Sequence<int> function (sizes are computed before anything is built)
    huge = ['range((-(2 * 4611686018427387904)), 9223372036854775807)', 'range(9223372036854775807)', 'range(0, 9223372036854775807, 3)',
            'range(9223372036854775807, (-(2 * 4611686018427387904)), (-1))', 'count().take(4611686018427387904)', 'range(4611686018427387904).map((p0: int)->{p0})',
            '[1].repeat(4611686018427387904)', 'range(9223372036854775807).skip(1)']
    for sig in sigs:
        if sig['kind'] != 'static' or sig['name'].startswith('_') or sig['name'] in skip_names:
            continue
        for bind, ptypes, opts, ret in stdlib.instantiate(sig, generic_choices=(stdlib.INT,)):
            if not ptypes or ptypes[0] != ('app', 'Sequence', [stdlib.INT]):
                continue
            for ar in stdlib.arities(opts):
                if ar < 1 or ar > 3:
                    continue
                rest = [pools.get(p, 2) for p in ptypes[1:ar]]
                if any(not r for r in rest):
                    continue
                for h in (huge if tier != 'quick' else huge[:4]):
                    for tail in itertools.islice(itertools.product(*rest), 4):
                        src = stdlib.call_src(sig['name'], [h] + list(tail))
                        if src not in seen:
                            seen.add(src)
                            out.append(src)
    return out


DYN_VALUES = ['1', '"s"', '1.5', 'true', '(1, 2)', '(1, "a")', '("a", 1)', '(1, 2, 3)', '[1, 2]', '["a"]', '[(1, "a")]', '[(1, 2)]', '[[1], [2]]', 'some(1)', 'some("a")',
              'none()', '[]', 'S0(1)', 'S1(1)', 'S1("a")', 'S2(1, "a")', 'S2("a", 1)', 'U0::i(1)', 'U0::s("a")', 'U1::v(1)', 'U1::v("a")', 'mapping<int>().set(1, "a")',
              'set<int>().add(1)', '[1, 2].to_generator()', '["a"].to_generator()', 'stack().push(1)', '(x: int)->{ x }', '(x: str)->{ 1 }', '[1.5, 2.5]', '[some(1)]',
              'fraction(1, 2)', 'date(5)', 'json(1)']


def dynamic_cases(tier):
    """every dynamic (factory) function of the library on every value / pair of values of differently shaped types: whatever the
    factory accepts must run"""
    sigs = stdlib.signatures()
    names = sorted(set(s['name'] for s in sigs if s['kind'] == 'dynamic') - {'display', 'partial', 'cast', 'mapping', 'set'})
    vals = DYN_VALUES if tier != 'quick' else DYN_VALUES[:24]
    out = []
    for nm in names:
        for a in vals:
            out.append('%s(%s)' % (nm, a))
        for a, b in itertools.product(vals, repeat=2):
            out.append('%s(%s, %s)' % (nm, a, b))
    if tier != 'quick':
        for nm in ('max', 'min', 'sort', 'n_largest', 'nth_largest', 'contains', 'count', 'to_cmp'):
            small = vals[:12]
            for a, b, c in itertools.product(small, repeat=3):
                out.append('%s(%s, %s, %s)' % (nm, a, b, c))
    return out


def _library_chunk(args):
    srcs, limits = args[:2]
    perms = args[2] if len(args) > 2 else {'regex': True}
    n = len(srcs)
    units = [('c%d' % i, 'let c%d = ()->{ %s };' % (i, s)) for i, s in enumerate(srcs)]
    outs = run_units(units, prelude=[T.DECLS + 'fn ids(s: Sequence<int>)->Sequence<int>{ s }\n'], limits=limits, perms=perms, dump={'max_items': 6}, timeout=20.0, reset_calls=True)
    res = []
    for o in outs:
        v = o.v
        if isinstance(v, Panic):
            res.append('panic@' + v.loc)
        elif isinstance(v, Fatal):
            res.append('fatal:' + v.kind)
        elif isinstance(v, HostErr):
            res.append('host:' + repr(v)[:60])
        elif isinstance(v, CErr):
            res.append('rejected')
        elif isinstance(v, Viol):
            res.append('violation')
        elif isinstance(v, Err):
            res.append('error')
        else:
            res.append('value')
    return res


# ----------------------------------------------------------------------------- D. mutants
def _mutant_chunk(args):
    texts, = args
    out = []
    for t in texts:
        job = {'id': 0, 'limits': {'depth': 300, 'calls': 200000, 'size': 64 << 20, 'search': 20000, 'time_ms': 3000, 'recursion': 100000}, 'perms': {'sleep': False},
               'dump': {'max_items': 4}, 'steps': [{'feed': t}, {'op': 'inst'}, {'op': 'call', 'name': 'main'}]}
        rep = run_job(job, timeout=30.0)
        if 'fatal' in rep:
            out.append(('fatal:' + rep['fatal'], '')); continue
        rs = rep['replies']
        f = rs[0]['v']
        if 'cerr' in f:
            out.append(('rejected', '')); continue
        if 'panic' in f:
            out.append(('compile-panic@' + norm_loc(f['panic'].get('loc', '')), f['panic'].get('msg', '')[:100])); continue
        i = decode(rs[1]['v'])
        if isinstance(i, Panic):
            out.append(('inst-panic@' + i.loc, i.msg[:100])); continue
        if isinstance(i, Viol):
            out.append(('violation', '')); continue
        m = decode(rs[2]['v'])
        if isinstance(m, Panic):
            out.append(('main-panic@' + m.loc, m.msg[:100])); continue
        out.append(('ran', ''))
    return out


def run(tier):
    rep = Report(PROP, tier, 'exploration',
                 'every program is offered to the compiler; each one the compiler accepts is instantiated, every binding read with its static '
                 'type (hook), checked for conformance and consumed by a type-directed eliminator. A: (required, supplied) matrix of C04 '
                 '(depth 1 quick / 2 thorough) flowing through 11 positions; B: generic calls with argument-returning bodies, inferred-type '
                 'forms, calls through function values, compound construction; C: every static library overload on type-directed pools '
                 '(arity<=3), without limits and under tight limits; D: compiling single-token mutants of shipped scripts / book examples, '
                 'instantiated and main run under limits; E: pairs of callable values with different arity windows (named functions and lambdas with optional parameters, callable parameters) meeting in array / if / generic / optional / tuple positions, the selected one called with 0..3 arguments against the value its definition gives; oracle: no panic / abort / hang / internal error, value shape = static type')
    # A + B
    flows = flow_programs(tier)
    derived = derived_programs(tier)
    rep.bounds['flow_programs'] = len(flows)
    rep.bounds['derived_programs'] = len(derived)
    pre = gsig_decls()
    allp = flows + derived
    results = []
    for part in pmap(_exec_chunk, [(pre, w) for w in chunks(allp, 150)]):
        results += part
    to_use = []
    for (label, text, binds), res in zip(allp, results):
        rep.evaluations += 1
        verdict = res[0]
        sig = 'C01|' + (label if len(label) < 180 else label[:140] + '#' + hashlib.sha1(label.encode()).hexdigest()[:10])
        job = {'id': 0, 'limits': {'depth': 400}, 'steps': [{'feed': T.DECLS + EXTRA_DECLS + pre}, {'feed': text}, {'op': 'inst'}] + [{'op': 'get', 'name': b} for b, t in binds]}
        if verdict == 'cerr':
            rep.outcome('rejected'); continue
        rep.nontrivial.add(sig)
        if verdict != 'ok':
            rep.outcome('crash')
            rep.fail(Failure(PROP, sig + '|compile-' + verdict.split(' ')[0], {'text': text}, 'accepted or rejected', verdict, job))
            continue
        inst, vals = res[1], res[2]
        if inst != 'ok':
            rep.outcome('crash')
            why = 'panic' if 'Panic' in inst else ('fatal' if inst.startswith('fatal') else 'inst')
            rep.fail(Failure(PROP, sig + '|accepted-then-' + why, {'text': text}, 'a value, an error or a violation', inst, job))
            continue
        rep.outcome('ran')
        uses = []
        for b, mt in binds:
            if b not in vals:
                continue
            v, hook_t = vals[b]
            rep.states += 1
            st = from_hook(hook_t) if hook_t else None
            for tt, origin in ((mt, 'declared'), (st, 'static')):
                if tt is None:
                    continue
                why = conforms(v, tt)
                if why:
                    rep.fail(Failure(PROP, sig + '|%s|value-does-not-conform-to-%s-type|%s' % (b[:2], origin, why), {'text': text, 'binding': b, 'type': render(tt) if tt != 'unk' else '?'},
                                     'a value of type %s' % (hook_t if origin == 'static' else render(mt)), repr(v)[:200], job))
                    break
            ut = mt if mt is not None else st
            if ut is not None and not isinstance(v, (Viol, Panic)):
                uses.append((b, ut))
        if uses:
            to_use.append((label, text, uses))
    rep.bounds['eliminator_programs'] = len(to_use)
    ures = {}
    for part in pmap(_use_chunk, [(pre, w) for w in chunks(to_use, 120)]):
        ures.update(part)
    for label, text, uses in to_use:
        rep.evaluations += 1
        rep.transitions += 1
        if label in ures:
            sig = 'C01|' + (label if len(label) < 180 else label[:140] + '#' + hashlib.sha1(label.encode()).hexdigest()[:10])
            why = ures[label]
            kind = why.split(':')[0]
            rep.fail(Failure(PROP, sig + '|' + kind, {'text': text, 'eliminators': ['let u_%s = %s;' % (b, use(t, b)) for b, t in uses]}, 'the value can be consumed at its static type', why,
                             {'id': 0, 'limits': {'depth': 400}, 'steps': [{'feed': T.DECLS + EXTRA_DECLS + pre}, {'feed': text}] + [{'feed': 'let u_%s = %s;' % (b, use(t, b))} for b, t in uses] +
                              [{'op': 'inst'}] + [{'op': 'get', 'name': 'u_' + b} for b, t in uses]}))
    # E
    wins = window_programs(tier)
    rep.bounds['arity_window_programs'] = len(wins)
    wres = []
    for part in pmap(_window_chunk, [(w,) for w in chunks(wins, 120)]):
        wres += part
    for (label, text, b, actual, args), (vd, val) in zip(wins, wres):
        rep.evaluations += 1
        sig = 'C01|' + label
        job = {'id': 0, 'limits': {'depth': 400}, 'steps': [{'feed': WIN_DECLS + 'fn wnone<T>(x: T)->Optional<T>{ if(false, some(x), none()) }\n'}, {'feed': text}, {'op': 'inst'}, {'op': 'get', 'name': b}]}
        if vd == 'cerr':
            rep.outcome('window-rejected'); continue
        rep.nontrivial.add(sig)
        want = win_value(actual, args)
        if vd != 'ok':
            rep.outcome('crash')
            rep.fail(Failure(PROP, sig + '|accepted-then-' + vd.split(':')[0], {'text': text}, 'rejected, or the value %r' % (want,), vd, job))
            continue
        rep.outcome('window-ran')
        if want is None or val != want:
            rep.fail(Failure(PROP, sig + ('|called-outside-its-arity' if want is None else '|wrong-value'), {'text': text, 'called': actual, 'args': list(args)},
                             'rejected' if want is None else repr(want), repr(val)[:200], job))
    # C
    lib = library_cases(tier)
    rep.bounds['library_calls'] = len(lib)
    dyn = dynamic_cases(tier)
    rep.bounds['dynamic_function_calls'] = len(dyn)
    lib = lib + dyn
    configs = [('roomy', {'search': 5000, 'size': 1 << 28, 'depth': 2000, 'calls': 300000}), ('tight', {'size': 200000, 'depth': 40, 'calls': 2000, 'search': 300, 'recursion': 200})]
    for cname, limits in configs:
        res = []
        for part in pmap(_library_chunk, [(w, limits) for w in chunks(lib, 120)]):
            res += part
        for src, r in zip(lib, res):
            rep.evaluations += 1
            rep.outcome('lib-' + r.split('@')[0].split(':')[0])
            rep.nontrivial.add('lib|' + src)
            if r.startswith(('panic', 'fatal', 'host')):
                rep.fail(Failure(PROP, 'C01|library|%s|%s|%s' % (cname, src[:120], r), {'src': src, 'limits': limits}, 'a value, an error or a violation', r,
                                 mk_unit_job([T.DECLS + 'fn ids(s: Sequence<int>)->Sequence<int>{ s }\n'], [('c0', 'let c0 = ()->{ %s };' % src)], limits, {'regex': True}, {'max_items': 6})))
    # C'. effects with their permission granted, at arguments around what the host primitive accepts (a sleep that would really last
    # is the user's request and is not made: only durations below a microsecond and beyond what a host duration can hold)
    eff = []
    for x in ('0.0', '-0.0', '5e-324', '1e-9', '-1e-9', '-1.0', '-1e300', '1e300', '1.7976931348623157e308', '18446744073709551616.0', '1.8446744073709556e19', '3.6893488147419103e19'):
        eff += ['sleep(seconds(%s), 1)' % x, 'sleep(seconds(%s))' % x, 'sleep(hours(%s), "a")' % x.replace('1e-9', '1e-13'), 'sleep(days(%s), [1])' % x.replace('1e-9', '1e-14'),
                'sleep(seconds(%s) * 2.0, 1)' % x, 'sleep(seconds(%s) + seconds(%s), 1)' % (x, x)]
    eff += ['[3, 1, 2].n_largest(1000000000000000000)', '[3, 1, 2].n_smallest(1000000000000000000)', '[3, 1, 2].n_largest(18446744073709551615)', '1.5.format(".3000000000f")',
            '1.5.format(".70000f").len()', '1.5.format(".65535f").len()', '1.5.format(".65536e").len()', '1.5.format(".99999%").len()', '0.0.format(".65536")', 'range(1000000000000000000).sample(30000000).len()']
    rep.bounds['effect_edge_calls'] = len(eff)
    res = []
    for part in pmap(_library_chunk, [(w, {'size': 1 << 24, 'calls': 1000}, {'sleep': True, 'regex': True}) for w in chunks(eff, 12)]):
        res += part
    for src, r in zip(eff, res):
        rep.evaluations += 1
        rep.outcome('effect-' + r.split('@')[0].split(':')[0])
        rep.nontrivial.add('effect|' + src)
        if r.startswith(('panic', 'fatal', 'host')):
            rep.fail(Failure(PROP, 'C01|effect|%s|%s' % (src, r), {'src': src, 'perms': {'sleep': True}}, 'a value, an error or a violation', r,
                             mk_unit_job([T.DECLS], [('c0', 'let c0 = ()->{ %s };' % src)], {'size': 1 << 24, 'calls': 1000}, {'sleep': True, 'regex': True}, {'max_items': 6})))
    # D
    from . import c12
    scripts, book = c12.corpus(tier)
    muts = []
    for s in scripts + book:
        if tier == 'quick' and len(s) > 600:
            continue
        # replacement tokens include values of other types: a well-typed script becomes a near-miss the checker has to reject
        muts += list(c12.mutants(s, replacements=(tier != 'quick' or len(s) < 250), repl=c12.REPL + ['1.5', 'true', '[1]', 'none()', '(1, 2)']))
    muts = list(dict.fromkeys(muts))
    pres = list(pmap(c12._feed_chunk, [(w, True) for w in chunks(muts, 3000)]))
    parsing = []
    for w, r in zip(chunks(muts, 3000), pres):
        if r[0] == 'ok':
            parsing += [t for t, x in zip(w, r[1]) if x[0] == 'parses']
    if tier == 'quick':
        parsing = parsing[::3]
    rep.bounds['mutants_parsing_run'] = len(parsing)
    res = []
    for part in pmap(_mutant_chunk, [(w,) for w in chunks(parsing, 40)]):
        res += part
    for t, (r, msg) in zip(parsing, res):
        rep.evaluations += 1
        rep.outcome('mutant-' + r.split('@')[0].split(':')[0])
        key = hashlib.sha1(t.encode()).hexdigest()[:12]
        if r not in ('rejected',):
            rep.nontrivial.add('mutant|' + key)
        if 'panic' in r or r.startswith('fatal'):
            rep.fail(Failure(PROP, 'C01|mutant|%s|%s' % (key, r), {'text': t}, 'rejected, or a value / error / violation', '%s %s' % (r, msg),
                             {'id': 0, 'limits': {'depth': 300, 'calls': 200000, 'size': 64 << 20, 'search': 20000, 'recursion': 100000}, 'steps': [{'feed': t}, {'op': 'inst'}, {'op': 'call', 'name': 'main'}]}))
    rep.sample(flows[len(flows) // 2][1])
    rep.sample({'eliminator': use(nat('Sequence', cmp_('S2', 'int', nat('Optional', 'str'))), 'v')})
    rep.assumptions = ['conformance is judged on the dumped prefix of a value (12 items per container)',
                       'library types other than the containers are not shape-checked',
                       'every run has a size limit (256 MB in the roomy configuration): running out of memory or time without any limit configured is the host\'s choice and not counted']
    return rep.finish()


def replay(rec):
    from ..table import replay_table
    return replay_table(rec)
