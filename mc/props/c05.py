"""C05 — overload resolution is ranked, unambiguous and stable.
E1 over sets of same-named overloads drawn from an alphabet of 19 signatures (non-generic / generic, optional parameters), every
declaration order, four placements over scope levels, alpha-renamings of generic and value parameters, additions of overloads
that cannot match, and standard-library names; every call tuple from a pool.  Reference (mc/model/types.py): the matching
non-generic candidates, else the matching generic ones; exactly one = that body runs, several = AmbiguousOverload, none =
NoOverload.  Each overload returns its own tag."""
import itertools, hashlib
from ..core import Report, Failure, run_job, pmap, chunks, decode, Machinery, CErr, Panic, Viol, Err
from ..model import types as T
from ..model.types import render, witness

PROP = 'C05'
PRELUDE = ('struct HT(a: int)\nstruct HS<X>(a: X)\nfn nf0()->int{ 1 } fn nf1(x: int)->int{ x } fn nf2(x: int, y: int)->int{ x } fn nf12(x: int, y: int ?= 1)->int{ x } '
           'fn nf01(x: int ?= 1)->int{ x } fn nfs(x: str)->int{ 1 }\n')


def nat(n, *a):
    return ('nat', n, tuple(a))


V = lambda n: ('var', n)
SEQI = nat('Sequence', 'int')

# key, generics, [(type, optional)]
ALPHABET = [
    ('n_int', [], [('int', False)]),
    ('n_str', [], [('str', False)]),
    ('n_float', [], [('float', False)]),
    ('n_int_int', [], [('int', False), ('int', False)]),
    ('n_int_oint', [], [('int', False), ('int', True)]),
    ('n_oint', [], [('int', True)]),
    ('n_none', [], []),
    ('n_seqint', [], [(SEQI, False)]),
    ('n_int_ostr', [], [('int', False), ('str', True)]),
    ('n_optint', [], [(nat('Optional', 'int'), False)]),
    ('n_str_str', [], [('str', False), ('str', False)]),
    ('g_T', ['T'], [(V('T'), False)]),
    ('g_T_T', ['T'], [(V('T'), False), (V('T'), False)]),
    ('g_seqT', ['T'], [(nat('Sequence', V('T')), False)]),
    ('g_T_int', ['T'], [(V('T'), False), ('int', False)]),
    ('g_optT', ['T'], [(nat('Optional', V('T')), False)]),
    ('g_A_B', ['A', 'B'], [(V('A'), False), (V('B'), False)]),
    ('g_seqT_T', ['T'], [(nat('Sequence', V('T')), False), (V('T'), False)]),
    ('g_T_oint', ['T'], [(V('T'), False), ('int', True)]),
    ('g_int_oseqT', ['T'], [('int', False), (nat('Sequence', V('T')), True)]),
]
ALPHA = {a[0]: a for a in ALPHABET}
DEFAULTS = {'int': '7', 'str': '"d"', nat('Sequence', V('T')): '[]'}
CALLS = [(), ('int',), ('str',), ('float',), ('int', 'int'), ('int', 'str'), ('str', 'str'), (SEQI,), (nat('Sequence', 'unk'),), (nat('Optional', 'unk'),),
         (nat('Optional', 'int'),), ('unk',), (SEQI, 'int'), (nat('Sequence', 'unk'), 'int'), ('int', 'int', 'int'), (nat('Sequence', 'str'), 'int')]

# standard-library overloads that can match the call pool (from the signatures hook, checked at start-up)
STD = {
    'abs': [('std_abs_int', [], [('int', False)]), ('std_abs_float', [], [('float', False)])],
    'len': [('std_len_str', [], [('str', False)]), ('std_len_seq', ['T'], [(nat('Sequence', V('T')), False)])],
    'push': [('std_push_seq', ['T'], [(nat('Sequence', V('T')), False), (V('T'), False)])],
}


def matches(ov, args):
    key, gens, params = ov
    lo = sum(1 for p in params if not p[1])
    if not (lo <= len(args) <= len(params)):
        return False
    ptypes = [p[0] for p in params[:len(args)]]
    ok, b = T.bind_call(ptypes, list(args))
    return ok


def resolve(cands, args):
    """'tag' | 'Ambiguous' | 'NoOverload' | UNSPEC"""
    ms = []
    for ov in cands:
        m = matches(ov, args)
        if m == T.UNSPEC:
            return T.UNSPEC
        if m:
            ms.append(ov)
    t1 = [o for o in ms if not o[1]]
    t2 = [o for o in ms if o[1]]
    for tier in (t1, t2):
        if tier:
            return tier[0][0] if len(tier) == 1 else 'AmbiguousOverload'
    return 'NoOverload'


def decl(name, ov, rename=None, pn='p'):
    key, gens, params = ov
    ren = rename or {}
    def rt(t):
        if isinstance(t, tuple) and t[0] == 'var':
            return ren.get(t[1], t[1])
        if isinstance(t, tuple) and t[0] in ('nat', 'cmp') and t[2]:
            return '%s<%s>' % (t[1], ', '.join(rt(a) for a in t[2]))
        if isinstance(t, tuple) and t[0] == 'tup':
            return '(%s)' % ', '.join(rt(a) for a in t[1])
        if isinstance(t, tuple) and t[0] == 'fn':
            return '(%s)->(%s)' % (', '.join(rt(a) for a in t[1]), rt(t[2]))
        return render(t)
    ps = []
    for i, (t, opt) in enumerate(params):
        ps.append('%s%d: %s%s' % (pn, i, rt(t), (' ?= ' + DEFAULTS[t]) if opt else ''))
    g = '<%s>' % ', '.join(ren.get(x, x) for x in gens) if gens else ''
    return 'fn %s%s(%s)->str{ "%s" } ' % (name, g, ', '.join(ps), key)


def subsets(tier):
    keys = [a[0] for a in ALPHABET]
    out = []
    for k in (1, 2):
        for s in itertools.combinations(keys, k):
            out.append((s, 'all-orders'))
    three = list(itertools.combinations(keys, 3))
    for i, s in enumerate(three):
        out.append((s, 'all-orders' if tier != 'quick' or i % 9 == 0 else 'two-orders'))
    if tier != 'quick':
        four = list(itertools.combinations(keys, 4))
        for i, s in enumerate(four):
            out.append((s, 'two-orders'))
        for k in (5, 6):
            big = itertools.combinations(keys, k)
            for i, s in enumerate(big):
                if i % 37 == 0:
                    out.append((s, 'two-orders'))
    return out


def orders(s, mode):
    if mode == 'all-orders':
        return list(itertools.permutations(s))
    return [tuple(s), tuple(reversed(s))]


STABLE = 'STABLE'
PLACEMENTS = ('flat', 'nested-call', 'split', 'all-nested')
RENAMES = [None, {'T': 'U', 'A': 'B', 'B': 'A'}, {'T': 'HT', 'A': 'HT', 'B': 'T'}]


def programs(tier):
    """yield (group_id, label, setup_texts, [(call_label, text, binding_name, expected)])"""
    gid = 0
    for s, mode in subsets(tier):
        cands = [ALPHA[k] for k in s]
        # the property speaks of call sites with fully known argument types: a call with the bottom type somewhere in its arguments
        # has no reference outcome (the implementation deliberately ranks generic candidates first there); it is still required to
        # give the same outcome for every order, placement and renaming of the same set (STABLE)
        expected = {c: (resolve(cands, c) if not any(T.has_unknown(a) for a in c) else STABLE) for c in CALLS}
        for oi, order in enumerate(orders(s, mode)):
            for pl in PLACEMENTS:
                if pl != 'flat' and (len(s) == 1 and pl in ('split',)):
                    continue
                if tier == 'quick' and pl != 'flat' and oi > 1:
                    continue
                if len(s) >= 4 and pl in ('nested-call', 'all-nested') and oi > 0:
                    continue
                for ri, ren in enumerate(RENAMES):
                    if ri and (not any(ALPHA[k][1] for k in s) or pl not in ('flat', 'nested-call') or oi > 0):
                        continue
                    gid += 1
                    name = 'ov%d' % gid
                    decls = [decl(name, ALPHA[k], ren, 'q' if ri else 'p') for k in order]
                    # an overload that can never match must not matter
                    extra = 'fn %s(a: int, b: int, c: int, d: int, e: int)->str{ "never" } ' % name if (gid % 3 == 0) else ''
                    if pl == 'flat':
                        setup = [''.join(decls) + extra]
                        calls = [('let c%d_%d = %s(%s);' % (gid, j, name, ', '.join(witness(a) for a in c)), 'c%d_%d' % (gid, j)) for j, c in enumerate(CALLS)]
                    elif pl == 'nested-call':
                        setup = [''.join(decls) + extra]
                        calls = [('fn h%d_%d()->str{ %s(%s) } let c%d_%d = h%d_%d();' % (gid, j, name, ', '.join(witness(a) for a in c), gid, j, gid, j), 'c%d_%d' % (gid, j))
                                 for j, c in enumerate(CALLS)]
                    elif pl == 'split':
                        h = len(decls) // 2 or 1
                        setup = [''.join(decls[:h]) + extra]
                        calls = [('fn h%d_%d()->str{ %s%s(%s) } let c%d_%d = h%d_%d();' % (gid, j, ''.join(decls[h:]), name, ', '.join(witness(a) for a in c), gid, j, gid, j),
                                  'c%d_%d' % (gid, j)) for j, c in enumerate(CALLS)]
                    else:
                        setup = []
                        calls = [('fn h%d_%d()->str{ %s%s%s(%s) } let c%d_%d = h%d_%d();' % (gid, j, ''.join(decls), extra, name, ', '.join(witness(a) for a in c), gid, j, gid, j),
                                  'c%d_%d' % (gid, j)) for j, c in enumerate(CALLS)]
                    label = '%s|order=%s|%s|rename=%d' % ('+'.join(s), ','.join(order), pl, ri)
                    yield gid, label, setup, [(render_call(c), text, bname, expected[c]) for c, (text, bname) in zip(CALLS, calls)]


def known(c):
    return not any(T.has_unknown(a) for a in c)


def extra_programs(tier):
    """placements in which several call sites share a scope: the set grows between call sites (interleaved), members spread over
    three scope levels with every resolvable call made from one innermost body (levels), calls from inside a generic function
    whose own type parameter is an argument type (generic-host)"""
    gid = 2 * 10 ** 6
    keys = [a[0] for a in ALPHABET]
    sets = []
    for k in (1, 2, 3):
        for i, s in enumerate(itertools.combinations(keys, k)):
            if k == 3 and tier == 'quick' and i % 9:
                continue
            sets.append(s)
    KC = [c for c in CALLS if known(c)]
    for s in sets:
        # interleaved: every declaration order; after each declaration every call is made again
        for oi, order in enumerate(itertools.permutations(s)):
            if tier == 'quick' and oi > 1:
                continue
            gid += 1
            name = 'ov%d' % gid
            setup = []
            calls = []
            for p in range(1, len(order) + 1):
                cands = [ALPHA[k] for k in order[:p]]
                d = decl(name, ALPHA[order[p - 1]])
                for j, c in enumerate(KC):
                    text = (d if j == 0 else '') + 'let c%d_%d_%d = %s(%s);' % (gid, p, j, name, ', '.join(witness(a) for a in c))
                    if j == 0:
                        # the declaration travels with the first call of its round; if that call is a compile error the declaration
                        # would be lost, so it gets its own feed
                        calls.append(('decl#%d' % p, d, None, 'DECL'))
                        text = 'let c%d_%d_%d = %s(%s);' % (gid, p, j, name, ', '.join(witness(a) for a in c))
                    calls.append(('after-%d:%s' % (p, render_call(c)), text, 'c%d_%d_%d' % (gid, p, j), resolve(cands, c)))
            yield gid, '%s|order=%s|interleaved' % ('+'.join(s), ','.join(order)), setup, calls
        # levels
        assigns = list(itertools.product((0, 1, 2), repeat=len(s)))
        for ai, lv in enumerate(assigns):
            if tier == 'quick' and len(s) == 3 and ai % 4:
                continue
            gid += 1
            name = 'ov%d' % gid
            by = {0: [], 1: [], 2: []}
            for k, l in zip(s, lv):
                by[l].append(k)
            all_c = [ALPHA[k] for k in s]
            l01 = [ALPHA[k] for k in by[0] + by[1]]
            ok_all = [c for c in KC if resolve(all_c, c) not in ('AmbiguousOverload', 'NoOverload', T.UNSPEC)]
            ok_01 = [c for c in KC if resolve(l01, c) not in ('AmbiguousOverload', 'NoOverload', T.UNSPEC)]

            def joined(cs):
                return ' + "," + '.join(['"J:"'] + ['%s(%s)' % (name, ', '.join(witness(a) for a in c)) for c in cs])
            text = ''.join(decl(name, ALPHA[k]) for k in by[0]) + \
                'fn h%d()->str{ %sfn k%d()->str{ %s%s } k%d() + "|" + %s } let c%d = h%d();' % (
                    gid, ''.join(decl(name, ALPHA[k]) for k in by[1]), gid, ''.join(decl(name, ALPHA[k]) for k in by[2]), joined(ok_all), gid, joined(ok_01), gid, gid)
            exp = ','.join(['J:'] + [resolve(all_c, c) for c in ok_all]) + '|' + ','.join(['J:'] + [resolve(l01, c) for c in ok_01])
            yield gid, '%s|levels=%s' % ('+'.join(s), ''.join(map(str, lv))), [], [('all-resolvable-calls', text, 'c%d' % gid, exp)]
            # the same three levels inside a function: every scope is small, so cell indices of different levels coincide
            gid += 1
            name = 'ov%d' % gid
            text = 'fn w%d()->str{ %sfn h%d()->str{ %sfn k%d()->str{ %s%s } k%d() + "|" + %s } h%d() } let c%d = w%d();' % (
                gid, ''.join(decl(name, ALPHA[k]) for k in by[0]), gid, ''.join(decl(name, ALPHA[k]) for k in by[1]), gid, ''.join(decl(name, ALPHA[k]) for k in by[2]),
                joined(ok_all), gid, joined(ok_01), gid, gid, gid)
            yield gid, '%s|levels-in-function=%s' % ('+'.join(s), ''.join(map(str, lv))), [], [('all-resolvable-calls', text, 'c%d' % gid, exp)]
    # generic host: the caller's type parameter is an argument type
    HOST = ('cmp', 'HostT', ())
    # (an overload whose optional parameter of type T defaults to an int literal used to be part of this pool: such a
    # declaration is unsound — f("a") would bind the int to a str-typed parameter — and is rejected since e4c28d9)
    # the callee's type parameter inside a container, next to a bare occurrence: the caller's namesake parameter meets it inside
    # a sequence, a tuple, a user struct and a function type
    TUPV, FNV, CMPV = ('tup', (V('T'), 'int')), ('fn', (V('T'),), 'int'), ('cmp', 'HS', (V('T'),))
    ALPHA['g_tupT_T'] = ('g_tupT_T', ['T'], [(TUPV, False), (V('T'), False)])
    ALPHA['g_fnT_T'] = ('g_fnT_T', ['T'], [(FNV, False), (V('T'), False)])
    ALPHA['g_cmpT_T'] = ('g_cmpT_T', ['T'], [(CMPV, False), (V('T'), False)])
    ALPHA['g_tupA_B'] = ('g_tupA_B', ['A', 'B'], [(('tup', (V('A'), 'int')), False), (V('B'), False)])
    top_pool = ['g_T', 'g_T_T', 'n_int', 'n_str', 'g_seqT', 'g_A_B', 'g_T_int', 'g_T_oint', 'g_seqT_T', 'g_tupT_T', 'g_fnT_T', 'g_cmpT_T', 'g_tupA_B']
    wide = set(top_pool[8:])
    nested_pool = [('nh_T', [], [(HOST, False)]), ('nh_T_T', [], [(HOST, False), (HOST, False)]), ('nh_seqT', [], [(nat('Sequence', HOST), False)]), ('nh_T_int', [], [(HOST, False), ('int', False)])]
    TUPH, FNH, CMPH = ('tup', (HOST, 'int')), ('fn', (HOST,), 'int'), ('cmp', 'HS', (HOST,))
    hcalls = [(HOST,), (HOST, HOST), (nat('Sequence', HOST),), (HOST, 'int'), ('int',), ('int', HOST)]
    hcalls_wide = [(c, a) for c in (nat('Sequence', HOST), TUPH, FNH, CMPH) for a in (HOST, 'int')]
    hwit = {HOST: 'x', nat('Sequence', HOST): '[x]', 'int': '1', TUPH: '(x, 1)', FNH: '(q: GN)->{ 1 }', CMPH: 'HS(x)'}
    for kt in (0, 1, 2):
        for ts in itertools.combinations(top_pool, kt):
            for kn in (0, 1, 2):
                for ns in itertools.combinations(nested_pool, kn):
                    if kt + kn == 0:
                        continue
                    if wide & set(ts) and kn == 2:
                        continue
                    for gname in ('T', 'U'):
                        gid += 1
                        name = 'ov%d' % gid
                        cands = [ALPHA[k] for k in ts] + list(ns)
                        top = ''.join(decl(name, ALPHA[k]) for k in ts)
                        nested = ''
                        for key, gens, params in ns:
                            def rt(t):
                                if t == HOST:
                                    return gname
                                if isinstance(t, tuple) and t[0] == 'nat':
                                    return '%s<%s>' % (t[1], ', '.join(rt(a) for a in t[2]))
                                return render(t)
                            nested += 'fn %s(%s)->str{ "%s" } ' % (name, ', '.join('y%d: %s' % (i, rt(t)) for i, (t, o) in enumerate(params)), key)
                        calls = []
                        for j, c in enumerate(hcalls + (hcalls_wide if wide & set(ts) else [])):
                            exp = resolve(cands, c)
                            text = '%sfn gh%d_%d<%s>(x: %s)->str{ %s%s(%s) } let c%d_%d = gh%d_%d(5); let e%d_%d = gh%d_%d("a");' % (
                                top if j == 0 else '', gid, j, gname, gname, nested, name, ', '.join(hwit[a].replace('GN', gname) for a in c), gid, j, gid, j, gid, j, gid, j)
                            if j == 0 and top:
                                calls.append(('decl', top, None, 'DECL'))
                                text = text[len(top):]
                            calls.append(('generic-host:%s' % render_call(c).replace('HostT', gname), text, 'c%d_%d' % (gid, j), exp))
                        yield gid, 'host<%s>|top=%s|nested=%s' % (gname, '+'.join(ts), '+'.join(n[0] for n in ns)), [], calls


def fn_programs(tier):
    """overloads whose parameter is a function type, called with named functions (with and without optional parameters) and lambdas:
    a candidate matches only if the supplied function can be called with exactly the parameter's arity"""
    gid = 3 * 10 ** 6
    FN = lambda ps, r: ('fn', tuple(ps), r)
    alpha = [('n_fn0', [], [(FN([], 'int'), False)]), ('n_fn1', [], [(FN(['int'], 'int'), False)]), ('n_fn2', [], [(FN(['int', 'int'], 'int'), False)]),
             ('n_fn1s', [], [(FN(['str'], 'int'), False)]), ('g_fnT', ['T'], [(FN([V('T')], 'int'), False)]), ('g_fnTU', ['T', 'U'], [(FN([V('T')], V('U')), False)]),
             ('g_fn0T', ['T'], [(FN([], V('T')), False)])]
    named = {'nf0': ('named', (), 0, 'int'), 'nf1': ('named', ('int',), 0, 'int'), 'nf2': ('named', ('int', 'int'), 0, 'int'), 'nf12': ('named', ('int', 'int'), 1, 'int'),
             'nf01': ('named', ('int',), 1, 'int'), 'nfs': ('named', ('str',), 0, 'int'), '(q: int)->{ 1 }': ('named', ('int',), 0, 'int'), '()->{ 1 }': ('named', (), 0, 'int'),
             '(q: int, r: int)->{ 1 }': ('named', ('int', 'int'), 0, 'int')}

    def rt(t):
        if isinstance(t, tuple) and t[0] == 'var':
            return t[1]
        if isinstance(t, tuple) and t[0] == 'fn':
            return '(%s)->(%s)' % (', '.join(rt(a) for a in t[1]), rt(t[2]))
        return render(t)
    for k in (1, 2, 3):
        for sset in itertools.combinations(alpha, k):
            for order in (itertools.permutations(sset) if k <= 2 or tier != 'quick' else [sset]):
                gid += 1
                name = 'ovf%d' % gid
                decls = ''.join('fn %s%s(f: %s)->str{ "%s" } ' % (name, ('<%s>' % ', '.join(g)) if g else '', rt(ps[0][0]), key) for key, g, ps in order)
                cands = list(sset)
                calls = [('decl', decls, None, 'DECL')]
                for j, (aexpr, at) in enumerate(named.items()):
                    calls.append(('fn-arg:%s' % aexpr, 'let c%d_%d = %s(%s);' % (gid, j, name, aexpr), 'c%d_%d' % (gid, j), resolve(cands, (at,))))
                yield gid, 'fn-typed|%s|order=%s' % ('+'.join(x[0] for x in sset), ','.join(x[0] for x in order)), [], calls


def render_call(c):
    return '(' + ', '.join(render(a) for a in c) + ')'


def std_programs(tier):
    gid = 10 ** 6
    user = ['n_int', 'n_str', 'n_seqint', 'g_T', 'g_seqT', 'g_seqT_T', 'n_float', 'g_A_B']
    for sname, std in STD.items():
        for k in (0, 1, 2):
            for s in itertools.combinations(user, k):
                cands = std + [ALPHA[x] for x in s]
                # a user overload with exactly a library signature is a redeclaration, not an overload set: skip
                gid += 1
                decls = ''.join(decl(sname, ALPHA[x]) for x in s)
                calls = []
                for j, c in enumerate(CALLS):
                    exp = resolve(cands, c) if not any(T.has_unknown(a) for a in c) else T.UNSPEC
                    body = 'let d%d_%d = to_str(%s(%s));' % (gid, j, sname, ', '.join(witness(a) for a in c))
                    calls.append((render_call(c), 'fn hs%d_%d()->str{ %s to_str(%s(%s)) } let d%d_%d = hs%d_%d();' % (gid, j, decls, sname, ', '.join(witness(a) for a in c), gid, j, gid, j),
                                  'd%d_%d' % (gid, j), exp))
                yield gid, 'std:%s+%s' % (sname, '+'.join(s)), [], calls


def _run_groups(groups):
    steps = [{'feed': PRELUDE}]
    index = []
    for gid, label, setup, calls in groups:
        for t in setup:
            steps.append({'feed': t}); index.append(('setup', gid, None))
        for ci, (clabel, text, bname, exp) in enumerate(calls):
            steps.append({'feed': text}); index.append(('call', gid, ci))
    steps.append({'op': 'inst'})
    names = []
    for gid, label, setup, calls in groups:
        for ci, (clabel, text, bname, exp) in enumerate(calls):
            if bname is not None:
                steps.append({'op': 'get', 'name': bname}); names.append((gid, ci))
    job = {'id': 0, 'limits': {}, 'steps': steps}
    rep = run_job(job, timeout=120.0)
    if 'fatal' in rep:
        if len(groups) == 1:
            return {(groups[0][0], ci): ('fatal', rep['fatal']) for ci in range(len(groups[0][3]))}
        h = len(groups) // 2
        a = _run_groups(groups[:h]); a.update(_run_groups(groups[h:]))
        return a
    rs = rep['replies']
    out = {}
    feeds = rs[1:1 + len(index)]
    for (kind, gid, ci), r in zip(index, feeds):
        v = r['v']
        if kind == 'setup':
            if 'ok' not in v:
                out[(gid, 'setup')] = ('setup-failed', repr(v)[:200])
            continue
        if 'ok' in v:
            out[(gid, ci)] = ('ok', None)
        elif 'cerr' in v:
            out[(gid, ci)] = ('cerr', v['cerr']['class'])
        else:
            out[(gid, ci)] = ('panic', repr(v)[:200])
    gets = rs[2 + len(index):]
    for (gid, ci), r in zip(names, gets):
        if out.get((gid, ci), ('',))[0] == 'ok':
            out[(gid, ci)] = ('ok', decode(r['v']))
    return out


def run(tier):
    rep = Report(PROP, tier, 'model_checking',
                 'every set of 1-3 (quick: all pairs and orders, triples in two orders, every ninth in all six; thorough: also all sets of 4 '
                 'and every 37th of 5-6) same-named overloads from a %d-signature alphabet (non-generic, generic, optional parameters) x '
                 'declaration orders x 4 placements over scope levels x alpha-renamings x a never-matching addition, and 3 standard-library '
                 'names with 0-2 user overloads; every call tuple of a %d-tuple pool; reference = non-generic matches, else generic matches; '
                 'one = its tag, several = AmbiguousOverload, none = NoOverload; non-trivial = distinct (set, order, placement, call)' % (len(ALPHABET), len(CALLS)))
    groups = list(programs(tier)) + list(std_programs(tier)) + list(extra_programs(tier)) + list(fn_programs(tier))
    rep.bounds['overload_groups'] = len(groups)
    rep.bounds['calls'] = sum(len(g[3]) for g in groups)
    results = {}
    for part in pmap(_run_groups, chunks(groups, 12)):
        results.update(part)
    outcomes_per_set = {}
    for gid, label, setup, calls in groups:
        if (gid, 'setup') in results:
            rep.fail(Failure(PROP, 'C05|%s|declarations-rejected' % label, {'setup': setup}, 'the overload set compiles', results[(gid, 'setup')][1], {'id': 0, 'limits': {}, 'steps': [{'feed': t} for t in setup]}))
            continue
        for ci, (clabel, text, bname, exp) in enumerate(calls):
            rep.evaluations += 1
            rep.states += 1
            if exp == T.UNSPEC:
                rep.outcome('unspecified')
                continue
            kind, v = results.get((gid, ci), ('missing', None))
            if exp == 'DECL':
                if kind != 'ok':
                    rep.fail(Failure(PROP, 'C05|%s|%s|declaration-rejected' % (label, clabel), {'text': text}, 'the declaration compiles', '%s %s' % (kind, v),
                                     {'id': 0, 'limits': {}, 'steps': [{'feed': text}]}))
                continue
            sig = 'C05|%s|call=%s' % (label, clabel)
            if exp == STABLE:
                # the observable outcome (error class, tag, or the propagated error) must not depend on order / placement / names
                obs = v if kind == 'cerr' else (repr(v) if kind == 'ok' else '%s:%s' % (kind, v))
                key = (label.split('|')[0], clabel)
                rep.outcome('stable-group')
                rep.nontrivial.add(sig)
                if kind not in ('ok', 'cerr'):
                    rep.fail(Failure(PROP, sig + '|' + kind, {'text': text, 'setup': setup}, 'a verdict', obs,
                                     {'id': 0, 'limits': {}, 'steps': [{'feed': PRELUDE}] + [{'feed': t} for t in setup] + [{'feed': text}]}))
                elif key in outcomes_per_set and outcomes_per_set[key][0] != obs:
                    rep.fail(Failure(PROP, sig + '|outcome-depends-on-order-placement-or-names', {'text': text, 'setup': setup, 'other': outcomes_per_set[key][1]},
                                     outcomes_per_set[key][0], obs,
                                     {'id': 0, 'limits': {}, 'steps': [{'feed': PRELUDE}] + [{'feed': t} for t in setup] + [{'feed': text}, {'op': 'inst'}, {'op': 'get', 'name': bname}]}))
                else:
                    outcomes_per_set.setdefault(key, (obs, label))
                continue
            rep.nontrivial.add(sig)
            job = {'id': 0, 'limits': {}, 'steps': [{'feed': PRELUDE}] + [{'feed': t} for t in setup] + [{'feed': text}, {'op': 'inst'}, {'op': 'get', 'name': bname}]}
            if kind == 'cerr':
                got = v
            elif kind == 'ok':
                got = v if isinstance(v, str) else repr(v)
                if isinstance(v, str) and not v.startswith(('n_', 'g_', 'J:', 'nh_')):
                    got = 'std'
                if exp.startswith('std_'):
                    exp = 'std'
            else:
                got = '%s:%s' % (kind, v)
            rep.outcome(got if got in ('AmbiguousOverload', 'NoOverload', 'std') else ('tag' if kind == 'ok' else 'other'))
            rep.transitions += 1
            if got != exp:
                rep.fail(Failure(PROP, sig + '|' + ('wrong-overload' if kind == 'ok' and exp not in ('AmbiguousOverload', 'NoOverload') else 'expected-%s-got-%s' % (exp, got if kind != 'ok' else 'a-body')),
                                 {'text': text, 'setup': setup}, exp, got, job))
    rep.sample({'group': groups[len(groups) // 2][1], 'call': groups[len(groups) // 2][3][4][1]})
    rep.assumptions = ['dynamic (factory) overloads are left out: the chosen names have none that can match the call pool',
                       'the call pool holds literal witnesses, so argument types are fully known; the bottom type matches every parameter',
                       'standard-library candidates are the subset of the hooked signatures that can match the pool (asserted against the hook)']
    return rep.finish()


def replay(rec):
    from ..table import replay_table
    return replay_table(rec)
