"""C07 — tail-call optimisation is semantically transparent.
E1 over the syntactic position of the self-call (tail carriers vs non-tail positions) x E3 over iteration counts and limits.
The reference has no TCO at all: the value is plain recursion's value; the class (tail / non-tail) predicts which limits trip."""
from ..core import Report, Viol, Err, Panic, Fatal, CErr, HostErr, Failure, run_units, pmap, mk_unit_job, veq, Opt

PROP = 'C07'

HELP = ('fn idf(x: int)->int{ x }\nfn ido(o: Optional<int>)->Optional<int>{ o }\n')

# name, class, declaration(s) defining `f` (int n -> result), expression for the expected value of f(n) as python lambda
# class: 'tail' (consumes no depth, bounded by the recursion limit only), 'nontail' (one or more frames per iteration),
#        'either' (semantically a self-call in tail position reached through another name: both treatments allowed)
TEMPLATES = [
    ('if-else', 'tail', 'fn f(n: int, acc: int ?= 0)->int{ if(n == 0, acc, f(n - 1, acc + 1)) }', lambda n: n),
    ('if-then', 'tail', 'fn f(n: int, acc: int ?= 0)->int{ if(n > 0, f(n - 1, acc + 1), acc) }', lambda n: n),
    ('nested-if', 'tail', 'fn f(n: int, acc: int ?= 0)->int{ if(n == 0, acc, if(n % 2 == 0, f(n - 1, acc + 1), f(n - 1, acc + 1))) }', lambda n: n),
    ('if_error-2nd', 'tail', 'fn f(n: int, acc: int ?= 0)->int{ if(n == 0, acc, if_error(error("x"), f(n - 1, acc + 1))) }', lambda n: n),
    ('if_error3-3rd', 'tail', 'fn f(n: int, acc: int ?= 0)->int{ if(n == 0, acc, if_error(error("boom"), "boo", f(n - 1, acc + 1))) }', lambda n: n),
    ('or-2nd', 'tail', 'fn f(n: int)->bool{ n == 0 || f(n - 1) }', lambda n: True),
    ('and-2nd', 'tail', 'fn f(n: int)->bool{ n != 0 && f(n - 1) }', lambda n: False),
    ('or-and-mixed', 'tail', 'fn f(n: int)->bool{ n == 0 || (n > 0 && f(n - 1)) }', lambda n: True),
    ('optional-or-2nd', 'tail', 'fn f(n: int)->Optional<int>{ if(n == 0, some(7), ido(none()) || f(n - 1)) }', lambda n: Opt(7, True)),
    ('optional-and-2nd', 'tail', 'fn f(n: int)->Optional<int>{ if(n == 0, some(7), some(1).and(f(n - 1))) }', lambda n: Opt(7, True)),
    ('optional-or-value-2nd', 'tail', 'fn f(n: int, acc: int ?= 0)->int{ if(n == 0, acc, ido(none()) || f(n - 1, acc + 1)) }', lambda n: n),
    ('map_or-default', 'tail', 'fn f(n: int, acc: int ?= 0)->int{ if(n == 0, acc, ido(none()).map_or(idf, f(n - 1, acc + 1))) }', lambda n: n),
    ('cast', 'tail', 'fn f(n: int, acc: int ?= 0)->int{ if(n == 0, acc, cast<int>(f(n - 1, acc + 1))) }', lambda n: n),
    ('to_str', 'tail', 'fn f(n: int, acc: str ?= "")->str{ if(n == 0, acc, to_str(f(n - 1, acc + "a"))) }', lambda n: 'a' * n),
    ('seq-acc', 'tail', 'fn f(n: int, acc: Sequence<int> ?= [0])->Sequence<int>{ if(n == 0, acc, f(n - 1, acc.take(1))) }', None),
    ('with-local-lets', 'tail', 'fn f(n: int, acc: int ?= 0)->int{ let m = n - 1; let a = acc + 1; if(n == 0, acc, f(m, a)) }', lambda n: n),
    ('under-operator', 'nontail', 'fn f(n: int)->int{ if(n == 0, 0, 1 + f(n - 1)) }', lambda n: n),
    ('operator-right', 'nontail', 'fn f(n: int)->int{ if(n == 0, 0, f(n - 1) + 1) }', lambda n: n),
    ('argument-of-user-fn', 'nontail', 'fn f(n: int, acc: int ?= 0)->int{ if(n == 0, acc, idf(f(n - 1, acc + 1))) }', lambda n: n),
    ('inside-called-lambda', 'nontail', 'fn f(n: int, acc: int ?= 0)->int{ if(n == 0, acc, (()->{ f(n - 1, acc + 1) })()) }', lambda n: n),
    ('inside-nested-fn', 'nontail', 'fn f(n: int, acc: int ?= 0)->int{ fn step()->int{ f(n - 1, acc + 1) } if(n == 0, acc, step()) }', lambda n: n),
    ('mutual', 'nontail', 'forward fn f(n: int, acc: int ?= 0)->int; fn g(n: int, acc: int)->int{ f(n, acc) } fn f(n: int, acc: int ?= 0)->int{ if(n == 0, acc, g(n - 1, acc + 1)) }', lambda n: n),
    ('array-literal', 'nontail', 'fn f(n: int, acc: int ?= 0)->int{ if(n == 0, acc, [f(n - 1, acc + 1)][0]) }', lambda n: n),
    ('tuple-literal', 'nontail', 'fn f(n: int, acc: int ?= 0)->int{ if(n == 0, acc, (f(n - 1, acc + 1), 0)::item0) }', lambda n: n),
    ('if-condition', 'nontail', 'fn f(n: int)->bool{ if(n == 0, true, if(f(n - 1), true, false)) }', lambda n: True),
    ('and-1st', 'nontail', 'fn f(n: int)->bool{ n == 0 || (f(n - 1) && true) }', lambda n: True),
    ('if_error-1st', 'nontail', 'fn f(n: int, acc: int ?= 0)->int{ if(n == 0, acc, if_error(f(n - 1, acc + 1), 0)) }', lambda n: n),
    ('optional-or-1st', 'nontail', 'fn f(n: int)->Optional<int>{ if(n == 0, some(7), f(n - 1) || some(0)) }', lambda n: Opt(7, True)),
    ('map-callback', 'nontail', 'fn f(n: int, acc: int ?= 0)->int{ if(n == 0, acc, [0].map((z: int)->{ f(n - 1, acc + 1) })[0]) }', lambda n: n),
    # the self-call is the operand of a member / variant access: not a tail position
    ('variant-bang', 'nontail', 'union Nat(zero: int, succ: Nat) fn f(n: int)->Nat{ if(n == 0, Nat::zero(7), Nat::succ(f(n - 1))!:succ) }', None),
    ('variant-bang-direct', 'nontail', 'union Nat(zero: int, succ: Nat) fn wrap(d: int)->Nat{ if(d == 0, Nat::zero(7), Nat::succ(wrap(d - 1))) } '
     'fn f(n: int, w: Optional<Nat> ?= none())->Nat{ if(n == 0, w || wrap(3), f(n - 1, some(Nat::succ(w || wrap(3))))!:succ) }', None),
    ('variant-opt', 'nontail', 'union Nat(zero: int, succ: Nat) fn f(n: int)->Optional<int>{ if(n == 0, some(7), Nat::zero(f(n - 1).value())?:zero) }', lambda n: Opt(7, True)),
    ('struct-member', 'nontail', 'struct Bx(a: int, b: int) fn bx(a: int)->Bx{ Bx(a, 0) } fn f(n: int, acc: int ?= 0)->int{ if(n == 0, acc, bx(f(n - 1, acc + 1))::a) }', lambda n: n),
    ('index-of-call', 'nontail', 'fn f(n: int, acc: int ?= 0)->Sequence<int>{ if(n == 0, [acc], [f(n - 1, acc + 1)[0]]) }', None),
    # calls in tail position that are NOT self-calls (another closure of the same literal, another function of the same shape,
    # another overload of the same name): plain calls, whatever their position
    ('sibling-closure', 'either', 'fn mk(k: int, next: (int)->(int))->(int)->(int){ (n: int)->{ if(n > 100, n, next(n + k)) } } '
     'fn f(n: int)->int{ let a = mk(1, idf); let b = mk(10, a); b(n) }', lambda n: n if n > 100 else (n + 10 if n + 10 > 100 else n + 11)),
    ('sibling-closure-chain3', 'either', 'fn mk(k: int, next: (int)->(int))->(int)->(int){ (n: int)->{ if(n > 100, n, next(n + k)) } } '
     'fn f(n: int)->int{ let a = mk(1, idf); let b = mk(10, a); let c = mk(3, b); c(n) + 1000 * b(n) }',
     lambda n: (lambda a, b: (n if n > 100 else b(n + 3)) + 1000 * b(n))(None, lambda m: m if m > 100 else (m + 10 if m + 10 > 100 else m + 11))),
    ('sibling-nested-fn', 'either', 'fn mk2(k: int)->(int, int)->(int){ fn h(m: int, acc: int)->int{ if(m == 0, acc, h(m - 1, acc + k)) } h } '
     'fn f(n: int)->int{ let h1 = mk2(1); let h2 = mk2(2); h1(n, 0) * 1000 + h2(n, 0) }', lambda n: 1002 * n),
    ('closure-self-tail-with-capture', 'either', 'fn f(n: int)->int{ fn h(m: int, acc: int)->int{ if(m == 0, acc + n, h(m - 1, acc + 1)) } h(n, 0) + h(2, 0) }',
     lambda n: 2 * n + n + 2),
    ('other-fn-same-shape', 'either', 'fn g(n: int, acc: int)->int{ if(n == 0, acc + 1000, g(n - 1, acc + 1)) } '
     'fn f(n: int, acc: int ?= 0)->int{ if(n == 0, acc, g(n - 1, acc + 1)) }', lambda n: 0 if n == 0 else n + 1000),
    ('other-overload', 'either', 'fn r(n: int, acc: int)->int{ if(n == 0, acc, r(n - 1, acc + 1)) } '
     'fn r(n: int, acc: str)->int{ if(n == 0, len(acc), r(n, 500)) } fn f(n: int)->int{ r(n, "ab") }', lambda n: 2 if n == 0 else n + 500),
    ('closure-passed-to-itself', 'either', 'fn mk3(k: int)->(int, (int)->(int))->(int){ fn h(m: int, o: (int)->(int))->int{ if(m == 0, k, o(m)) } h } '
     'fn f(n: int)->int{ let h5 = mk3(5); let h9 = mk3(9); h5(n, (m: int)->{ h9(m - m, idf) }) }', lambda n: 5 if n == 0 else 9),
    ('alias', 'either', 'fn f(n: int, acc: int ?= 0)->int{ let g = f; if(n == 0, acc, g(n - 1, acc + 1)) }', lambda n: n),
    ('partial', 'either', 'fn f(n: int, acc: int ?= 0)->int{ if(n == 0, acc, partial(f, n - 1)(acc + 1)) }', lambda n: n),
]


def configs(n, cls, tier):
    """(limits, expected) pairs: expected is 'value' or a violation kind"""
    out = [({}, 'value')]
    if cls == 'tail':
        # frames: the unit (1), f (2), a helper called from f's body (3): a tail self-call never needs a fourth
        out.append(({'depth': 4}, 'value'))
        out.append(({'depth': 5}, 'value'))
        out.append(({'calls': 10 ** 9}, 'count'))
        out.append(({'depth': 4, 'recursion': max(n, 1) + 1}, 'value'))
        for L in (sorted(set([n - 1, n, n + 1, 1, 2])) if tier == 'quick' else sorted(set(list(range(1, min(n + 3, 60))) + [n - 1, n, n + 1]))):
            if L >= 1:
                out.append(({'recursion': L}, 'MaximumRecursion' if n > L else 'value'))
    elif cls == 'nontail':
        if n >= 2:
            out.append(({'depth': 3}, 'MaximumStackDepth'))
            out.append(({'recursion': 1}, 'value'))       # never the recursion limit
            out.append(({'recursion': 1, 'depth': 3}, 'MaximumStackDepth'))
        out.append(({'depth': 2 * n + 8, 'recursion': 1}, 'value'))
    return out


def ns(cls, tier):
    if cls == 'tail':
        return ([0, 1, 2, 3, 7, 50] + [1000]) if tier == 'quick' else [0, 1, 2, 3, 4, 5, 7, 16, 50, 1000, 100000, 1000000]
    return [0, 1, 2, 3, 7, 50] if tier == 'quick' else [0, 1, 2, 3, 4, 5, 7, 16, 50, 200, 400]


def _run(args):
    limits, items = args
    units = []
    for i, (tname, decl, n) in enumerate(items):
        units.append(('c%d' % i, 'let c%d = ()->{ %s f(%d) };' % (i, decl, n)))
    outs = run_units(units, prelude=[HELP], limits=limits, dump={'max_items': 8}, timeout=30.0)
    res = []
    prev = 0
    for o in outs:
        ud = (o.c or {}).get('ud')
        delta = (ud - prev) if ud is not None else None
        if ud is not None:
            prev = ud
        res.append((repr(o.v), delta, o.v))
    return res


def run(tier):
    rep = Report(PROP, tier, 'model_checking',
                 'recursive functions with the self-call in every syntactic position (%d templates: tail carriers through if / if_error / '
                 'and / or / Optional combinators / cast / to_str; non-tail positions under operators, as arguments, inside lambdas, nested '
                 'functions, literals, conditions, first operands, callbacks, mutual recursion; aliases) x iteration counts 0..100000 x limit '
                 'configurations; reference = plain recursion (value) + classification (tail: no depth, calls constant, recursion limit '
                 'exact; non-tail: depth limit trips, recursion limit never); non-trivial = distinct (template, n, limits)' % len(TEMPLATES))
    groups = {}
    counts = {}
    for tname, cls, decl, val in TEMPLATES:
        for n in ns(cls, tier):
            if tname == 'to_str' and n > 100000:
                continue      # the accumulator is a string: quadratic copying, nothing to do with the call mechanism
            for limits, exp in configs(n, cls, tier):
                key = tuple(sorted(limits.items()))
                groups.setdefault(key, []).append((tname, cls, decl, val, n, exp))
    work = []
    for key, items in groups.items():
        for i in range(0, len(items), 40):
            work.append((dict(key), items[i:i + 40]))
    rep.bounds = {'templates': len(TEMPLATES), 'runs': sum(len(w[1]) for w in work)}
    for (limits, items), res in zip(work, pmap(_run, [(l, [(t[0], t[2], t[4]) for t in it]) for l, it in work])):
        for (tname, cls, decl, val, n, exp), (vr, bad, v) in zip(items, res):
            rep.evaluations += 1
            rep.nontrivial_count += 1
            rep.states += 1
            rep.transitions += 1
            sig = 'C07|%s|n=%d|%s' % (tname, n, ','.join('%s=%d' % kv for kv in sorted(limits.items())) or 'unlimited')
            case = {'template': tname, 'class': cls, 'decl': decl, 'n': n, 'limits': limits}
            job = mk_unit_job([HELP], [('c0', 'let c0 = ()->{ %s f(%d) };' % (decl, n))], limits, None, {'max_items': 8})
            if isinstance(v, (Panic, Fatal, CErr, HostErr)):
                rep.outcome('crash')
                rep.fail(Failure(PROP, sig + '|' + ('panic@' + v.loc if isinstance(v, Panic) else type(v).__name__ + (':' + getattr(v, 'kind', getattr(v, 'cls', '')))), case, exp, vr, job))
                continue
            if exp == 'count':
                exp = 'value'
                counts[(tname, n)] = bad
            if exp == 'value':
                if isinstance(v, Viol):
                    rep.outcome('violation')
                    rep.fail(Failure(PROP, sig + '|spurious-violation:' + v.kind, case, 'the value of plain recursion', vr, job))
                    continue
                rep.outcome('value')
                if val is not None:
                    want = val(n)
                    if not veq(v, want):
                        rep.fail(Failure(PROP, sig + '|wrong-value', case, want, vr, job))
            else:
                if not (isinstance(v, Viol) and v.kind == exp):
                    rep.outcome('value' if not isinstance(v, Viol) else 'violation')
                    rep.fail(Failure(PROP, sig + '|' + ('missing-violation' if not isinstance(v, Viol) else 'wrong-violation:' + v.kind), case, 'Viol(%s)' % exp, vr, job))
                else:
                    rep.outcome('violation')
    # user calls made by a tail-recursive function grow only by its helper calls (one per iteration here), never by the self-call
    HELPERS = {'optional-or-2nd': 1, 'optional-or-value-2nd': 1, 'map_or-default': 1}
    for tname, cls, decl, val in TEMPLATES:
        if cls != 'tail':
            continue
        a, b = counts.get((tname, 7)), counts.get((tname, 50))
        rep.evaluations += 1
        if a is None or b is None:
            continue
        want = HELPERS.get(tname, 0) * 43
        if b - a != want:
            rep.fail(Failure(PROP, 'C07|%s|call-count-growth|tail-self-call-counted-as-call' % tname, {'template': tname, 'decl': decl},
                             'calls(f(50)) - calls(f(7)) == %d' % want, b - a, mk_unit_job([HELP], [('c0', 'let c0 = ()->{ %s f(50) };' % decl)], {'calls': 10 ** 9}, None, None)))
    rep.traces = rep.evaluations
    rep.sample({'template': TEMPLATES[0][2], 'n': 50, 'limits': {'depth': 3}, 'expected': 50})
    rep.sample({'template': TEMPLATES[16][2], 'n': 7, 'limits': {'depth': 3}, 'expected': 'Viol(MaximumStackDepth)'})
    rep.sample({'template': TEMPLATES[5][2], 'n': 50, 'limits': {'recursion': 49}, 'expected': 'Viol(MaximumRecursion)'})
    rep.assumptions = ['a self-call reached through an alias or a partial application may or may not be optimised: only its value is checked',
                       'non-tail recursion deeper than 400 frames is not run without a depth limit (native stack)']
    return rep.finish()


def replay(rec):
    from ..table import replay_table
    return replay_table(rec)
