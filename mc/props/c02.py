"""C02 — core evaluation follows the documented semantics.  E1 with the reference evaluator (mc/model/lang.py):
1. parse structure of operator strings (user overloads on a trace struct), 2. sugar equivalences, 3. every well-typed term up to
a size over the core fragment, 4. declaration programs, 5. evaluation order / exactly-once / short-circuit."""
import itertools
from ..core import Report, Failure, run_units, pmap, chunks, mk_unit_job, veq, Err, Viol, Panic, Fatal, CErr, HostErr, Opt, Un, Seq, xstr
from ..model import lang as L
from ..model.lang import INT, FLOAT, STR, BOOL, opt, seq, tup

PROP = 'C02'

PRELUDE = ('struct S0(a: int, b: str)\nunion V2(i: int, s: str)\nfn ino()->Optional<int>{ none() }\nfn inc(x: int)->int{ x + 1 }\n'
           'fn ids(s: Sequence<int>)->Sequence<int>{ s }\nfn ei(m: str)->int{ error(m) }\nfn es(m: str)->str{ error(m) }\n')

# ----------------------------------------------------------------------------- 1. parse structure
BINOPS = [('**', 'pow', 6), ('*', 'mul', 5), ('/', 'div', 5), ('%', 'mod', 5), ('+', 'add', 4), ('-', 'sub', 4), ('|', 'bit_or', 3), ('&', 'bit_and', 3),
          ('^', 'bit_xor', 3), ('<', 'lt', 2), ('>', 'gt', 2), ('<=', 'le', 2), ('>=', 'ge', 2), ('==', 'eq', 2), ('!=', 'ne', 2), ('&&', 'and', 1), ('||', 'or', 1)]
TRACE_PRELUDE = 'struct E(s: str)\n' + ''.join(
    'fn %s(a: E, b: E)->E{ E("(" + a::s + " %s " + b::s + ")") }\n' % (fn, sym) for sym, fn, lvl in BINOPS) + \
    'fn neg(a: E)->E{ E("(-" + a::s + ")") }\nfn not(a: E)->E{ E("(!" + a::s + ")") }\nfn pos(a: E)->E{ E("(+" + a::s + ")") }\n' + \
    'let va = E("a"); let vb = E("b"); let vc = E("c"); let vd = E("d");\n'


def climb(operands, ops):
    """reference precedence climber: levels as documented in DESIGN (** right-assoc and tightest, then * / %, + -, | & ^,
    comparisons, && ||; left-assoc within a level)"""
    prec = {sym: lvl for sym, fn, lvl in BINOPS}
    out = [operands[0]]
    st = []

    def reduce_():
        op = st.pop()
        b = out.pop(); a = out.pop()
        out.append('(%s %s %s)' % (a, op, b))
    for op, x in zip(ops, operands[1:]):
        while st and (prec[st[-1]] > prec[op] or (prec[st[-1]] == prec[op] and op != '**')):
            reduce_()
        st.append(op)
        out.append(x)
    while st:
        reduce_()
    return out[0]


def parse_cases(tier):
    out = []
    names = ['a', 'b', 'c', 'd']
    un = ['', '-', '!', '+', '-!']
    syms = [s for s, f, l in BINOPS]
    combos = []
    for n in (1, 2):
        combos += list(itertools.product(syms, repeat=n))
    # one operator per precedence level in every arrangement of three
    reps = ['**', '*', '+', '|', '<', '&&']
    combos += list(itertools.product(reps, repeat=3))
    if tier != 'quick':
        combos += [c for c in itertools.product(syms, repeat=3) if c not in combos]
    seen = set()
    for ops in combos:
        if ops in seen:
            continue
        if any(o in ('<', '<=') for o in ops) and any(o in ('>', '>=') for o in ops[[i for i, o in enumerate(ops) if o in ('<', '<=')][0] + 1:]):
            continue   # "a < b > c" reads as the specialisation a<b> followed by c: a grammar ambiguity the book does not settle
        seen.add(ops)
        uchoices = [un] * (len(ops) + 1) if len(ops) <= 1 else [['', '-']] + [['']] * (len(ops) - 1) + [['', '!']]
        for us in itertools.product(*uchoices):
            src_parts, operands = [], []
            for i, u in enumerate(us):
                operands.append(''.join('(%s' % c for c in u) + names[i] + ')' * len(u))
                src_parts.append(u + 'v' + names[i])
            src = src_parts[0]
            for op, p in zip(ops, src_parts[1:]):
                src += ' %s %s' % (op, p)
            want = climb(operands, list(ops))
            out.append({'sig': 'C02|parse|%s' % src, 'src': '(%s)::s' % src, 'exp': want})
    return out


# ----------------------------------------------------------------------------- 3. typed term enumeration
S0 = 'S0'
V2 = 'V2'
TUP = tup(INT, STR)


class Enum:
    def __init__(self, ints, floats, strs):
        self.lits = {INT: [L.lit(v) for v in ints] + [L.err('E', INT)], FLOAT: [L.lit(v) for v in floats], STR: [L.lit(v) for v in strs] + [L.err('E', STR)],
                     BOOL: [L.lit(True), L.lit(False)], opt(INT): [L.call('ino', opt(INT))], seq(INT): [L.call('ids', seq(INT), L.array(INT))]}
        self.memo = {}

    def terms(self, t, n):
        key = (t, n)
        if key in self.memo:
            return self.memo[key]
        out = []
        if n == 1:
            out = list(self.lits.get(t, []))
        else:
            for prod in self.productions(t, n):
                out.extend(prod)
        self.memo[key] = out
        return out

    def splits(self, n, k):
        """all ways to give k children sizes summing to n-1 (each >= 1)"""
        if k == 1:
            return [(n - 1,)] if n - 1 >= 1 else []
        res = []
        for a in range(1, n - 1):
            for rest in self.splits(n - a, k - 1):
                res.append((a,) + rest)
        return res

    def kids(self, n, types):
        for sizes in self.splits(n, len(types)):
            pools = [self.terms(t, s) for t, s in zip(types, sizes)]
            if all(pools):
                for c in itertools.product(*pools):
                    yield c

    def productions(self, t, n):
        T = self
        if t == INT:
            for op in ('add', 'sub', 'mul', 'mod', 'pow', 'bit_and', 'bit_or'):
                yield [L.bin_(op, INT, a, b) for a, b in T.kids(n, [INT, INT])]
            yield [L.un('neg', INT, a) for (a,) in T.kids(n, [INT])]
            yield [L.if_(c, a, b) for c, a, b in T.kids(n, [BOOL, INT, INT])]
            for f in ('min', 'max', 'cmp', 'div_floor'):
                yield [L.call(f, INT, a, b) for a, b in T.kids(n, [INT, INT])]
            for f in ('abs', 'sign'):
                yield [L.call(f, INT, a) for (a,) in T.kids(n, [INT])]
            yield [L.call('len', INT, a) for (a,) in T.kids(n, [STR])]
            yield [L.method('len', INT, a) for (a,) in T.kids(n, [seq(INT)])]
            yield [L.index(a, b, INT) for a, b in T.kids(n, [seq(INT), INT])]
            yield [L.item(a, 0, INT) for (a,) in T.kids(n, [TUP])]
            yield [L.member(a, 'a', 0, INT) for (a,) in T.kids(n, [S0])]
            yield [L.valmember(a, 'i', 0, INT) for (a,) in T.kids(n, [V2])]
            yield [L.method('value', INT, a) for (a,) in T.kids(n, [opt(INT)])]
            yield [L.call('if_error', INT, a, b) for a, b in T.kids(n, [INT, INT])]
            yield [('call', INT, 'opt_or', [a, b]) for a, b in T.kids(n, [opt(INT), INT])]
        elif t == FLOAT:
            for op in ('add', 'sub', 'mul', 'div'):
                yield [L.bin_(op, FLOAT, a, b) for a, b in T.kids(n, [FLOAT, FLOAT])]
            yield [L.bin_('div', FLOAT, a, b) for a, b in T.kids(n, [INT, INT])]
            yield [L.call('to_float', FLOAT, a) for (a,) in T.kids(n, [INT])]
            yield [L.un('neg', FLOAT, a) for (a,) in T.kids(n, [FLOAT])]
        elif t == STR:
            yield [L.bin_('add', STR, a, b) for a, b in T.kids(n, [STR, STR])]
            yield [L.call('to_str', STR, a) for (a,) in T.kids(n, [INT])]
            yield [L.call('to_str', STR, a) for (a,) in T.kids(n, [BOOL])]
            yield [L.item(a, 1, STR) for (a,) in T.kids(n, [TUP])]
            yield [L.member(a, 'b', 1, STR) for (a,) in T.kids(n, [S0])]
            yield [L.valmember(a, 's', 1, STR) for (a,) in T.kids(n, [V2])]
            yield [L.if_(c, a, b) for c, a, b in T.kids(n, [BOOL, STR, STR])]
        elif t == BOOL:
            for op in ('lt', 'le', 'gt', 'ge', 'eq', 'ne'):
                yield [L.bin_(op, BOOL, a, b) for a, b in T.kids(n, [INT, INT])]
            for op in ('lt', 'eq'):
                yield [L.bin_(op, BOOL, a, b) for a, b in T.kids(n, [STR, STR])]
            for op in ('and', 'or'):
                yield [L.bin_(op, BOOL, a, b) for a, b in T.kids(n, [BOOL, BOOL])]
            yield [L.un('not', BOOL, a) for (a,) in T.kids(n, [BOOL])]
            yield [L.call('is_error', BOOL, a) for (a,) in T.kids(n, [INT])]
            yield [L.method('has_value', BOOL, a) for (a,) in T.kids(n, [opt(INT)])]
        elif t == opt(INT):
            yield [L.call('some', opt(INT), a) for (a,) in T.kids(n, [INT])]
            yield [L.method('then', opt(INT), c, a) for c, a in T.kids(n, [BOOL, INT])]
            yield [L.optmember(a, 'i', 0, INT) for (a,) in T.kids(n, [V2])]
        elif t == seq(INT):
            yield [L.array(INT, a) for (a,) in T.kids(n, [INT])]
            yield [L.array(INT, a, b) for a, b in T.kids(n, [INT, INT])]
            yield [L.method('push', seq(INT), a, b) for a, b in T.kids(n, [seq(INT), INT])]
            yield [L.bin_('add', seq(INT), a, b) for a, b in T.kids(n, [seq(INT), seq(INT)])]
        elif t == TUP:
            yield [L.tuple_(a, b) for a, b in T.kids(n, [INT, STR])]
        elif t == S0:
            yield [L.struct('S0', ('a', 'b'), a, b) for a, b in T.kids(n, [INT, STR])]
        elif t == V2:
            yield [L.variant('V2', 'i', 0, a) for (a,) in T.kids(n, [INT])]
            yield [L.variant('V2', 's', 1, a) for (a,) in T.kids(n, [STR])]


L.BIN[('add', seq(INT))] = lambda a, b: a + b


def term_cases(tier):
    out = []
    if tier == 'quick':
        plans = [(Enum([0, 1, -3, 1 << 63, (1 << 64) + 1], [0.5, -2.0, 1e308], ['', 'a', 'é']), 3), (Enum([0, 2], [0.5], ['a']), 4)]
    else:
        plans = [(Enum([0, 1, -3, 1 << 63, (1 << 64) + 1], [0.5, -2.0, 1e308], ['', 'a', 'é']), 4), (Enum([0, 2], [0.5], ['a']), 5)]
    # representation boundaries: long operands whose sum / difference / quotient is short again, and the reverse
    BIG = [5, -1, (1 << 63) - 1, 1 << 63, -(1 << 63), (1 << 64) + 1, (1 << 64) - 4, -(1 << 64) - 1, 1 << 70, (1 << 70) + 5]
    plans.append((Enum(BIG, [0.5], ['a']), 4 if tier == 'quick' else 5))
    seen = set()
    for en, n in plans:
        for size in range(1, n + 1):
            for t in (INT, FLOAT, STR, BOOL, opt(INT), seq(INT), TUP, S0, V2):
                for term in en.terms(t, size):
                    src = L.render(term)
                    if src in seen:
                        continue
                    seen.add(src)
                    out.append((term, src))
    return out


def model_value(term, env=None):
    ctx = L.Ctx()
    try:
        v = L.ev(term, dict(env or BASE_ENV), ctx)
    except OverflowError:
        return None, ctx
    return v, ctx


BASE_ENV = {}


def _term_chunk(items):
    """items: (src, expected core value | None, expected output | None)"""
    units = [('c%d' % i, 'let c%d = ()->{ %s };' % (i, it[0])) for i, it in enumerate(items)]
    outs = run_units(units, prelude=[items[0][3]] if len(items[0]) > 3 else [PRELUDE], dump={'max_items': 64}, timeout=20.0)
    res = []
    for it, o in zip(items, outs):
        v = o.v
        if isinstance(v, (Panic, Fatal, HostErr, Viol)):
            res.append(('crash', 'panic@' + v.loc if isinstance(v, Panic) else type(v).__name__ + ':' + str(getattr(v, 'kind', '')), repr(v), o.out)); continue
        if isinstance(v, CErr):
            res.append(('rejected', 'rejected:' + v.cls, repr(v), '')); continue
        why = None
        if it[1] is not None:
            exp = it[1]
            if isinstance(exp, Err):
                if not isinstance(v, Err):
                    why = 'error-dropped'
                elif exp.msg in ('E', 'E0', 'E1', 'E2') and v.msg != exp.msg:
                    why = 'wrong-error'
            elif isinstance(v, Err):
                why = 'error-should-be-value'
            elif not veq(v, exp):
                why = 'wrong-value'
        if why is None and it[2] is not None and o.out != it[2]:
            why = 'wrong-output'
        res.append(('error' if isinstance(v, Err) else 'value', why, repr(v), o.out))
    return res


# ----------------------------------------------------------------------------- 5. evaluation order
def order_cases():
    out = []

    def d(i, v='%d'):
        return 'display(%s, "a%d:")' % (v % (i + 1) if '%d' in v else v, i)

    def exp(n, vals=None):
        return ''.join('a%d:%s\n' % (i, (vals[i] if vals else i + 1)) for i in range(n))
    pre = ('fn u1(a: int)->int{ a }\nfn u2(a: int, b: int)->int{ a }\nfn u3(a: int, b: int, c: int)->int{ a }\nstruct T3(a: int, b: int, c: int)\n'
           'struct T2(a: int, b: int)\nunion W(i: int, s: str)\n')
    kinds = [
        ('user-fn-1', 'u1(%s)' % d(0), 1), ('user-fn-2', 'u2(%s, %s)' % (d(0), d(1)), 2), ('user-fn-3', 'u3(%s, %s, %s)' % (d(0), d(1), d(2)), 3),
        ('lambda-2', '((a: int, b: int)->{ a })(%s, %s)' % (d(0), d(1)), 2), ('fn-value', 'let g = u2; g(%s, %s)' % (d(0), d(1)), 2),
        ('native-2', 'max(%s, %s)' % (d(0), d(1)), 2), ('native-3', '[0, 0, 0].set(%s - 1, %s)[0]' % (d(0), d(1)), 2),
        ('method-sugar', '%s.max(%s)' % (d(0), d(1)), 2), ('operator', '%s + %s' % (d(0), d(1)), 2), ('operator-chain', '%s - %s * %s' % (d(0), d(1), d(2)), 3),
        ('comparison', '%s < %s' % (d(0), d(1)), 2), ('index-sugar', '[5, 6, 7][%s]' % d(0), 1), ('struct-ctor', 'T3(%s, %s, %s)::a' % (d(0), d(1), d(2)), 3),
        ('struct-ctor-2', 'T2(%s, %s)::b' % (d(0), d(1)), 2), ('union-ctor', 'W::i(%s)!:i' % d(0), 1), ('tuple', '(%s, %s, %s)::item2' % (d(0), d(1), d(2)), 3),
        ('array', '[%s, %s, %s].len()' % (d(0), d(1), d(2)), 3), ('fstring', 'f"{%s}-{%s}"' % (d(0), d(1)), 2), ('nested-call', 'u2(u1(%s), u1(%s))' % (d(0), d(1)), 2),
        ('partial', 'partial(u3, %s)(%s, %s)' % (d(0), d(1), d(2)), 3), ('push', '[1].push(%s).len()' % d(0), 1), ('some', 'some(%s).value()' % d(0), 1),
    ]
    for name, src, n in kinds:
        out.append(('order|' + name, src, exp(n), pre))
    # exactly once: a bound value used many times is evaluated once
    out.append(('once|let-reuse', 'let v = %s; v + v + v' % d(0), exp(1), pre))
    out.append(('once|param-reuse', '((p: int)->{ p + p + p })(%s)' % d(0), exp(1), pre))
    out.append(('once|default-at-creation', 'let f = (p: int ?= %s)->{ p }; f() + f() + f(5)' % d(0), exp(1), pre))
    # documented short-circuit functions: exactly the documented arguments are evaluated
    T = 'display(true, "c:")'
    F = 'display(false, "c:")'
    sc = [
        ('if-true', 'if(%s, %s, %s)' % (T, d(0), d(1)), 'c:true\na0:1\n'), ('if-false', 'if(%s, %s, %s)' % (F, d(0), d(1)), 'c:false\na1:2\n'),
        ('and-false', '%s && display(true, "r:")' % F, 'c:false\n'), ('and-true', '%s && display(true, "r:")' % T, 'c:true\nr:true\n'),
        ('or-true', '%s || display(true, "r:")' % T, 'c:true\n'), ('or-false', '%s || display(true, "r:")' % F, 'c:false\nr:true\n'),
        ('then-false', '%s.then(%s).has_value()' % (F, d(0)), 'c:false\n'), ('then-true', '%s.then(%s).has_value()' % (T, d(0)), 'c:true\na0:1\n'),
        ('if_error-value', 'if_error(%s, %s)' % (d(0), d(1)), 'a0:1\n'), ('if_error-error', 'if_error(error("x"), %s)' % d(1), 'a1:2\n'),
        ('optional-or-some', '(some(%s) || some(%s)).value()' % (d(0), d(1)), 'a0:1\n'), ('optional-or-none', '(ino() || some(%s)).value()' % d(1), 'a1:2\n'),
        ('optional-or-value-some', 'some(%s) || %s' % (d(0), d(1)), 'a0:1\n'), ('optional-or-value-none', 'ino() || %s' % d(1), 'a1:2\n'),
        ('map_or-none', 'ino().map_or(inc, %s)' % d(1), 'a1:2\n'), ('map_or-some', 'some(%s).map_or(inc, %s)' % (d(0), d(1)), 'a0:1\n'),
        ('optional-map-none', 'ino().map((x: int)->{ %s }).has_value()' % d(0), ''), ('optional-and-none', 'ino().and(some(%s)).has_value()' % d(0), ''),
        ('mapping-get-present', 'mapping<int>().set(1, 5).get(1, %s)' % d(1), ''), ('mapping-get-absent', 'mapping<int>().set(1, 5).get(2, %s)' % d(1), 'a1:2\n'),
        ('nested-if', 'if(%s, if(display(false, "d:"), %s, %s), %s)' % (T, d(0), d(1), d(2)), 'c:true\nd:false\na1:2\n'),
        ('lazy-map-not-forced', '[1, 2].map((x: int)->{ display(x, "m:") }).len()', ''), ('lazy-map-get', '[1, 2].map((x: int)->{ display(x, "m:") })[1]', 'm:2\n'),
    ]
    pre2 = pre + 'fn ino()->Optional<int>{ none() }\nfn inc(x: int)->int{ x + 1 }\n'
    for name, src, o in sc:
        out.append(('short-circuit|' + name, src, o, pre2))
    return out


# ----------------------------------------------------------------------------- 4. declaration programs
def decl_programs(tier):
    """programs of k declarations; every top-level let is compared, and the output"""
    progs = []
    lits = [L.lit(2), L.lit(-5)]

    def int_terms(names):
        vs = [L.var(n, INT) for n in names]
        base = lits + vs
        out = list(base)
        for a in base:
            for b in base[:3]:
                out.append(L.bin_('add', INT, a, b))
                out.append(L.bin_('mul', INT, a, b))
        for v in vs[:2]:
            out.append(L.display(v, 'd:'))
            out.append(L.if_(L.bin_('lt', BOOL, v, L.lit(0)), L.un('neg', INT, v), v))
        return out
    kmax = 2 if tier == 'quick' else 3
    # declaration kinds: ('let', term) | ('fn', nparams, default?, body) | ('lam', body)
    def extend(decls, names, fns, depth):
        if depth == 0:
            progs.append(list(decls))
            return
        for t in int_terms(names)[: (10 if tier == 'quick' else 14)]:
            nm = 'v%d' % len(decls)
            extend(decls + [('let', nm, t)], names + [nm], fns, depth - 1)
        for body_maker in (lambda p, q: L.bin_('add', INT, p, q), lambda p, q: L.bin_('sub', INT, L.bin_('mul', INT, p, p), q), lambda p, q: L.if_(L.bin_('lt', BOOL, p, q), p, L.display(q, 'f:'))):
            fname = 'f%d' % len(decls)
            p, q = L.var('p', INT), L.var('q', INT)
            dflt = L.var(names[-1], INT) if names else L.lit(7)
            extend(decls + [('fn', fname, [('p', INT, None), ('q', INT, dflt)], body_maker(p, q))], names, fns + [fname], depth - 1)
        if names:
            lname = 'l%d' % len(decls)
            extend(decls + [('lamlet', lname, [('p', INT, None)], L.bin_('add', INT, L.var('p', INT), L.var(names[0], INT)))], names, fns + [lname], depth - 1)
    extend([], [], [], kmax)
    return progs


def decl_source_and_expect(decls):
    """source text of the program + uses, and the model's values for every let + output"""
    src = []
    env = {}
    ctx = L.Ctx()
    expect = []
    uses = []
    for d in decls:
        if d[0] == 'let':
            src.append('let %s = %s;' % (d[1], L.render(d[2])))
            env[d[1]] = L.ev(d[2], env, ctx)
            expect.append((d[1], env[d[1]]))
        elif d[0] == 'fn':
            ps = ', '.join('%s: %s%s' % (n, ty, '' if df is None else ' ?= ' + L.render(df)) for n, ty, df in d[2])
            src.append('fn %s(%s)->int{ %s }' % (d[1], ps, L.render(d[3])))
            ds = [None if df is None else L.ev(df, env, ctx) for n, ty, df in d[2]]
            env[d[1]] = L.Closure(d[2], ds, d[3], dict(env), name=d[1])
            uses.append((d[1], [[L.lit(3)], [L.lit(3), L.lit(-4)]]))
        else:
            ps = ', '.join('%s: %s' % (n, ty) for n, ty, df in d[2])
            src.append('let %s = (%s)->{ %s };' % (d[1], ps, L.render(d[3])))
            env[d[1]] = L.Closure(d[2], [None], d[3], dict(env))
            uses.append((d[1], [[L.lit(10)]]))
    k = 0
    for fname, argsets in uses:
        for args in argsets:
            nm = 'r%d' % k
            k += 1
            src.append('let %s = %s(%s);' % (nm, fname, ', '.join(L.render(a) for a in args)))
            vals = [L.ev(a, env, ctx) for a in args]
            env[nm] = L.apply_closure(env[fname], vals, ctx)
            expect.append((nm, env[nm]))
    return ' '.join(src), expect, ''.join(x + '\n' for x in ctx.out)


def _decl_chunk(progs):
    from ..core import run_job, decode
    res = []
    for src, names in progs:
        steps = [{'feed': src}, {'op': 'inst'}] + [{'op': 'get', 'name': n} for n in names]
        rep = run_job({'id': 0, 'limits': {}, 'steps': steps, 'dump': {'max_items': 32}}, timeout=20.0)
        if 'fatal' in rep:
            res.append(('fatal:' + rep['fatal'], None, '')); continue
        rs = rep['replies']
        if 'ok' not in rs[0]['v']:
            res.append(('rejected', repr(rs[0]['v'])[:300], '')); continue
        if 'ok' not in rs[1]['v']:
            res.append(('inst-failed', repr(rs[1]['v'])[:300], rs[1]['c']['out'])); continue
        vals = [decode(r['v']) for r in rs[2:2 + len(names)]]
        res.append(('ok', vals, rs[1]['c']['out']))
    return res


def wide_cases(tier):
    """programs whose size crosses index-width boundaries (2**7, 2**8, 2**16): declarations per scope, parameters, fields, tuple items,
    variants, captured names, nesting depth, operator chains.  (source expression, expected value)"""
    small = [127, 128, 255, 256, 257, 300] if tier == 'quick' else [15, 16, 17, 31, 32, 63, 64, 127, 128, 129, 255, 256, 257, 300, 511, 512, 1000, 1023, 1024, 1025]
    large = [1000] if tier == 'quick' else [4095, 4096, 65535, 65536, 65537]
    out = []
    for n in small:
        lets = 'let v0 = 0; ' + ''.join('let v%d = v%d + 1; ' % (i, i - 1) for i in range(1, n))
        out.append(('lets-in-body|%d' % n, '(()->{ %sv%d })()' % (lets, n - 1), n - 1))
        out.append(('lets-read-first-and-last|%d' % n, '(()->{ %s(v0, v%d, v%d) })()' % (lets, n // 2, n - 1), (0, n // 2, n - 1)))
        ps = ', '.join('p%d: int' % i for i in range(n))
        out.append(('parameters|%d' % n, '((%s)->{ p0 * 1000000 + p%d * 1000 + p%d })(%s)' % (ps, n // 2, n - 1, ', '.join(str(i % 997) for i in range(n))),
                    0 + ((n // 2) % 997) * 1000 + (n - 1) % 997))
        dps = ', '.join('p%d: int ?= %d' % (i, i % 997) for i in range(n))
        out.append(('default-parameters|%d' % n, '((%s)->{ p0 * 1000000 + p%d * 1000 + p%d })()' % (dps, n // 2, n - 1), 0 + ((n // 2) % 997) * 1000 + (n - 1) % 997))
        out.append(('tuple-items|%d' % n, '(()->{ let t = (%s); (t::item0, t::item%d, t::item%d) })()' % (', '.join(str(i) for i in range(n)), n // 2, n - 1), (0, n // 2, n - 1)))
        out.append(('array-literal|%d' % n, '(()->{ let t = [%s]; (t[0], t[%d], t[%d], t.len()) })()' % (', '.join(str(i) for i in range(n)), n // 2, n - 1), (0, n // 2, n - 1, n)))
        out.append(('captured-names|%d' % n, '(()->{ %s let f = ()->{ %s }; f() })()' % (lets, ' + '.join('v%d' % i for i in range(n))), n * (n - 1) // 2))
        out.append(('operator-chain|%d' % n, ' + '.join(['1'] * n), n))
        out.append(('method-chain|%d' % n, '0' + '.add(1)' * n, n))
        out.append(('string-concat-chain|%d' % n, ' + '.join(['"a"'] * n) + ' == "a" * %d' % n, True))
        out.append(('if-chain|%d' % n, ''.join('if(%d == 0, %d, ' % (n - 1 - i, i) for i in range(n)) + '-1' + ')' * n, n - 1))
    for n in [k for k in small if k <= 300]:
        # nested functions, each level capturing the outermost parameter and its own
        src = ''
        for i in range(n):
            src += 'fn g%d(a%d: int)->int{ ' % (i, i)
        src += ' + '.join('a%d' % i for i in (0, n // 2, n - 1))
        for i in reversed(range(n)):
            src += ' } g%d(%d)' % (i, i + 1) if i else ' }'
        out.append(('nesting-depth|%d' % n, '(()->{ %s g0(1) })()' % src, 1 + (n // 2 + 1) + n if n > 1 else 3))
    for n in large:
        out.append(('array-literal|%d' % n, '(()->{ let t = [%s]; (t[0], t[%d], t[%d], t.len()) })()' % (', '.join(str(i) for i in range(n)), n // 2, n - 1), (0, n // 2, n - 1, n)))
        lets = 'let v0 = 0; ' + ''.join('let v%d = v%d + 1; ' % (i, i - 1) for i in range(1, n))
        out.append(('lets-in-body|%d' % n, '(()->{ %sv%d })()' % (lets, n - 1), n - 1))
        out.append(('tuple-items|%d' % n, '(()->{ let t = (%s); (t::item0, t::item%d, t::item%d) })()' % (', '.join(str(i) for i in range(n)), n // 2, n - 1), (0, n // 2, n - 1)))
    return out


def wide_struct_programs(tier):
    """(program text, expected value of r): structs / unions with many members need top-level declarations"""
    ns_ = [255, 256, 257] if tier == 'quick' else [127, 128, 255, 256, 257, 1000, 4096, 65535, 65536, 65537]
    out = []
    for n in ns_:
        fields = ', '.join('f%d: int' % i for i in range(n))
        out.append(('struct-fields|%d' % n, 'struct W(%s) let w = W(%s); let r = (w::f0, w::f%d, w::f%d);' % (fields, ', '.join(str(i) for i in range(n)), n // 2, n - 1), (0, n // 2, n - 1)))
        out.append(('union-variants|%d' % n, 'union W(%s) let w = W::f%d(7); let r = (w?:f%d.has_value(), w?:f0.has_value(), w!:f%d, w?:f%d.has_value());' % (fields, n - 1, n - 1, n - 1, n // 2),
                    (True, False, 7, False)))
    return out


def float_pow_cases(tier):
    """x ** p on floats: the real value where one exists for a non-negative base, an error where none does"""
    import math
    from ..table import ERR, UNSPEC
    from ..core import xfloat
    vals = [0.0, -0.0, 0.5, 1.0, 2.0, -2.0, -0.5, 1.5, 3.0, -1.0, -3.0, 0.25, 1e308, 1e-308, 5e-324, 7.0, -7.0]
    out = []
    for a in vals:
        for b in vals:
            if a > 0:
                try:
                    r = a ** b
                    exp = r if math.isfinite(r) else ERR
                except OverflowError:
                    exp = ERR
            elif a == 0:
                exp = (a ** b) if b > 0 else ERR
            elif b == int(b) and b >= 1:
                try:
                    exp = a ** b
                    if not math.isfinite(exp):
                        exp = ERR
                except OverflowError:
                    exp = ERR
            elif b != int(b):
                exp = ERR       # no real value
            else:
                exp = UNSPEC    # negative base, integral exponent <= 0: a real value exists, the library refuses the whole quadrant
            for form in ('(%s) ** (%s)', 'pow(%s, %s)'):
                out.append({'sig': 'C02|float-pow|%s|%r|%r' % (form[:3], a, b), 'src': form % (xfloat(a), xfloat(b)), 'exp': exp})
    for a in (0, 2, -2, 3):
        for b in (0.5, 2.0, -1.0, 0.0):
            if a > 0:
                exp = float(a) ** b
            elif a == 0:
                exp = 0.0 if b > 0 else ERR
            elif b == int(b) and b >= 1:
                exp = float(a) ** b
            elif b != int(b):
                exp = ERR
            else:
                exp = UNSPEC
            out.append({'sig': 'C02|float-pow|int-base|%r|%r' % (a, b), 'src': 'pow(%d, %s)' % (a, xfloat(b)), 'exp': exp})
    return out


def float_mod_cases(tier):
    """a % b on floats: the remainder of floored division, with the sign of the divisor and an error only for a zero divisor
    (the book); reference = fmod corrected by one addition of the divisor (which is what Python's % does), bit for bit"""
    from ..table import ERR, UNSPEC
    from ..core import xfloat
    vals = [0.0, 1.0, -1.0, 2.0, -2.0, 4.0, -4.0, 0.5, -0.5, 5.0, -5.0, 7.5, -7.5, 1e300, -1e300, 3.0, -3.0,
            9e307, -9e307, 1e308, -1e308, 1.7976931348623157e308, -1.7976931348623157e308, 1e-20, -1e-20, 5e-324, -5e-324, 2.2250738585072014e-308, 0.1, -0.3, 1e16, 1e16 + 2]
    out = []
    for a in vals:
        for b in vals:
            if b == 0:
                exp = ERR
            else:
                exp = a % b
                if exp == 0:
                    exp = UNSPEC if a == 0 else abs(exp) if b > 0 else -abs(exp)   # an exact multiple: a zero with the divisor's sign
            for form in ('(%s) %% (%s)', 'mod(%s, %s)'):
                out.append({'sig': 'C02|float-mod|%s|%r|%r' % (form[:3], a, b), 'src': form % (xfloat(a), xfloat(b)), 'exp': exp})
    return out


def run(tier):
    rep = Report(PROP, tier, 'model_checking',
                 'reference evaluator written from the book, in lock-step with the implementation: (1) all operator strings of <=2 binary '
                 'operators with unary prefixes, plus every triple with one operator per precedence level (thorough: all triples), traced through '
                 'user overloads; (2) operator / method / index sugar against the named functions; (3) every well-typed term up to %s nodes over '
                 'int/float/str/bool/Optional/Sequence/tuple/struct/union/error; (4) all declaration programs of <=%s declarations (let, fn with '
                 'default, lambda) with uses; (5) evaluation order, exactly-once and the documented short-circuit functions via display; '
                 'non-trivial = distinct programs' % ('3 (4 over small pools)' if tier == 'quick' else '4 (5 over small pools)', 2 if tier == 'quick' else 3))
    # 1. parse structure
    pc = parse_cases(tier)
    rep.bounds['operator_strings'] = len(pc)
    from ..table import run_table
    run_table(rep, pc, {'prelude': [TRACE_PRELUDE]}, chunk=300)
    # 3. terms (+ 2. sugar: the same term rendered with operators and with named functions)
    terms = term_cases(tier)
    rep.bounds['terms'] = len(terms)
    items = []
    for term, src in terms:
        v, ctx = model_value(term)
        if v is None:
            continue
        cv = L.to_core(v)
        items.append((src, cv, None, PRELUDE, 'C02|term|' + src))
        fsrc = L.render(term, 'fn')
        if fsrc != src and len(items) % 3 == 0:
            items.append((fsrc, cv, None, PRELUDE, 'C02|sugar|' + fsrc))
    idx = 0
    for res in pmap(_term_chunk, chunks(items, 250)):
        for cls, why, actual, out in res:
            it = items[idx]; idx += 1
            rep.evaluations += 1
            rep.outcome(cls)
            rep.nontrivial.add(it[4])
            if cls in ('crash', 'rejected') or why:
                rep.fail(Failure(PROP, '%s|%s' % (it[4], why or cls), {'src': it[0]}, repr(it[1]), actual,
                                 mk_unit_job([it[3]], [('c0', 'let c0 = ()->{ %s };' % it[0])], None, None, {'max_items': 64})))
    fm = float_mod_cases(tier)
    rep.bounds['float_mod_cases'] = len(fm)
    run_table(rep, fm, {'prelude': [PRELUDE]}, chunk=200)
    fp = float_pow_cases(tier)
    rep.bounds['float_pow_cases'] = len(fp)
    run_table(rep, fp, {'prelude': [PRELUDE]}, chunk=200)
    # 6. wide programs
    wc = wide_cases(tier)
    rep.bounds['wide_programs'] = len(wc) + len(wide_struct_programs(tier))
    witems = [(src, exp, None, PRELUDE, 'C02|wide|' + name) for name, src, exp in wc]
    widx = 0
    for res in pmap(_term_chunk, chunks(witems, 8)):
        for cls, why, actual, out in res:
            it = witems[widx]; widx += 1
            rep.evaluations += 1
            rep.outcome(cls)
            rep.nontrivial.add(it[4])
            if cls in ('crash', 'rejected') or why:
                rep.fail(Failure(PROP, '%s|%s' % (it[4], why or cls), {'src': it[0][:2000]}, repr(it[1]), actual,
                                 mk_unit_job([it[3]], [('c0', 'let c0 = ()->{ %s };' % it[0])], None, None, {'max_items': 64})))
    for name, text, exp in wide_struct_programs(tier):
        job = {'id': 0, 'limits': {}, 'dump': {'max_items': 16}, 'steps': [{'feed': text}, {'op': 'inst'}, {'op': 'get', 'name': 'r'}]}
        from ..core import run_job, decode
        r = run_job(job, timeout=120.0)
        rep.evaluations += 1
        sig = 'C02|wide|' + name
        rep.nontrivial.add(sig)
        if 'fatal' in r:
            rep.outcome('crash')
            rep.fail(Failure(PROP, sig + '|fatal:' + r['fatal'], {'src': text[:2000]}, repr(exp), r['fatal'], job)); continue
        got = decode(r['replies'][2]['v']) if 'ok' in r['replies'][0]['v'] and 'ok' in r['replies'][1]['v'] else decode(r['replies'][0]['v'] if 'ok' not in r['replies'][0]['v'] else r['replies'][1]['v'])
        rep.outcome('value' if veq(got, exp) else 'other')
        if not veq(got, exp):
            rep.fail(Failure(PROP, sig + '|wrong-value', {'src': text[:2000]}, repr(exp), repr(got)[:300], job))
    # 5. evaluation order
    oc = order_cases()
    rep.bounds['order_cases'] = len(oc)
    items = [(src, None, out, pre, 'C02|' + name) for name, src, out, pre in oc]
    by_pre = {}
    for it in items:
        by_pre.setdefault(it[3], []).append(it)
    for pre, its in by_pre.items():
        for (cls, why, actual, out), it in zip(_term_chunk(its), its):
            rep.evaluations += 1
            rep.outcome(cls)
            rep.nontrivial.add(it[4])
            if cls in ('crash', 'rejected') or why:
                rep.fail(Failure(PROP, '%s|%s' % (it[4], why or cls), {'src': it[0]}, 'out=%r' % it[2], '%s out=%r' % (actual, out),
                                 mk_unit_job([it[3]], [('c0', 'let c0 = ()->{ %s };' % it[0])], None, None, {'max_items': 64})))
    # 4. declaration programs
    progs = decl_programs(tier)
    rep.bounds['declaration_programs'] = len(progs)
    prepared = []
    for d in progs:
        src, expect, out = decl_source_and_expect(d)
        prepared.append((src, expect, out))
    work = chunks([(p[0], [n for n, v in p[1]]) for p in prepared], 40)
    idx = 0
    for res in pmap(_decl_chunk, work):
        for cls, vals, out in res:
            src, expect, eout = prepared[idx]; idx += 1
            rep.evaluations += 1
            rep.outcome(cls)
            rep.nontrivial.add(src)
            job = {'id': 0, 'limits': {}, 'steps': [{'feed': src}, {'op': 'inst'}] + [{'op': 'get', 'name': n} for n, v in expect]}
            sig = 'C02|program|%s' % src[:120]
            if cls != 'ok':
                rep.fail(Failure(PROP, sig + '|' + cls, {'src': src}, 'compiles and instantiates', vals, job)); continue
            for (n, mv), got in zip(expect, vals):
                rep.transitions += 1
                if not veq(L.to_core(mv), got) and not (isinstance(mv, L.ErrV) and isinstance(got, Err)):
                    rep.fail(Failure(PROP, sig + '|binding:%s|wrong-value' % n, {'src': src}, repr(L.to_core(mv)), repr(got), job)); break
            else:
                if out != eout:
                    rep.fail(Failure(PROP, sig + '|wrong-output', {'src': src}, eout, out, job))
    rep.states = rep.evaluations
    rep.transitions += rep.evaluations
    rep.traces = rep.evaluations
    rep.sample({'parse': pc[len(pc) // 2]['src'], 'expected': pc[len(pc) // 2]['exp']})
    rep.sample({'term': terms[len(terms) // 2][1]})
    rep.sample({'program': prepared[len(prepared) // 2][0], 'output': prepared[len(prepared) // 2][2]})
    rep.assumptions = ['the book gives no precedence table: the conventional reading stated in DESIGN.md is the reference',
                       'error message texts are compared only for error(...) raised by the program itself',
                       'whether arguments right of an erroring argument are evaluated is unspecified: such programs do not compare their output']
    return rep.finish()


def replay(rec):
    from ..table import replay_table
    return replay_table(rec)
