"""C11 — side effects happen only with permission.  Complete product: effects x reaching paths x permission assignments."""
import itertools
from ..core import Report, Viol, Err, Panic, Fatal, CErr, HostErr, Failure, run_units, pmap, mk_unit_job

PROP = 'C11'
PERMS = ['print', 'print_debug', 'now', 'random', 'regex', 'sleep']
DEFAULT = {'print': True, 'print_debug': True, 'now': True, 'random': True, 'regex': False, 'sleep': False}

# name, permission, expression, static type, double touched ('w' writer, 'c' clock, 'r' rng, None)
EFFECTS = [
    ('display', 'print', 'display(41)', 'int', 'w'),
    ('display-prefix', 'print', 'display(41, "p:")', 'int', 'w'),
    ('display-str', 'print', 'display("é")', 'str', 'w'),
    ('debug', 'print_debug', 'debug(41)', 'int', 'w'),
    ('now', 'now', 'now()', 'Datetime', 'c'),
    ('unix_now', 'now', '__std_unix_now()', 'float', 'c'),
    ('random', 'random', 'random()', 'float', 'r'),
    ('cont-sample', 'random', 'normal_distribution(0.0, 1.0).sample(2)', 'Sequence<float>', 'r'),
    ('cont-random', 'random', 'exp_distribution(1.0).random()', 'float', 'r'),
    ('disc-sample', 'random', 'binomial_distribution(3, 0.5).sample(2)', 'Sequence<int>', 'r'),
    ('disc-random', 'random', 'uniform_distribution(0, 5).random()', 'int', 'r'),
    ('seq-sample', 'random', '[1, 2, 3].sample(2)', 'Sequence<int>', 'r'),
    ('shuffle', 'random', '[1, 2, 3].shuffle()', 'Sequence<int>', 'r'),
    ('random_choices', 'random', '[1, 2, 3].random_choices(2)', 'Sequence<int>', 'r'),
    ('random_choices-w', 'random', '[1, 2, 3].random_choices(2, [1.0, 2.0, 1.0])', 'Sequence<int>', 'r'),
    ('regex', 'regex', 'regex("a+")', 'Regex', None),
    ('regex-malformed', 'regex', 'regex("[0-9](")', 'Regex', None),
    ('sleep', 'sleep', 'sleep(seconds(0.0))', '()', None),
    ('sleep-value', 'sleep', 'sleep(seconds(0.0), 5)', 'int', None),
]

# name, reached?, template with E (expression) and T (its type)
PATHS = [
    ('direct', True, 'E'),
    ('in-function', True, 'let f = ()->{E}; f()'),
    ('returned-closure', True, 'let g = ()->{ ()->{E} }; let h = g(); h()'),
    ('map-callback-forced', True, '[1, 2].map((x: int)->{E}).to_array()'),
    ('filter-callback', True, '[1].to_generator().filter((x: int)->{ let e = E; true }).to_array()'),
    ('reduce-callback', True, '[1, 2].reduce((a: int, b: int)->{ let e = E; a })'),
    ('default-parameter', True, 'let f = (x: T ?= E)->{0}; f()'),
    ('nested-fn', True, 'fn outer()->T{ fn inner()->T{E} inner() } outer()'),
    ('gen-take_while', True, '[1, 2].to_generator().take_while((x: int)->{ let e = E; true }).to_array()'),
    ('gen-skip_until', True, '[1, 2].to_generator().skip_until((x: int)->{ let e = E; true }).to_array()'),
    ('gen-map', True, '[1, 2].to_generator().map((x: int)->{ let e = E; x }).to_array()'),
    ('gen-aggregate', True, '[1, 2].to_generator().aggregate((a: int, b: int)->{ let e = E; a }).to_array()'),
    ('gen-group', True, '[1, 2].to_generator().group((a: int, b: int)->{ let e = E; true }).to_array()'),
    ('gen-successors', True, 'successors_until(1, (x: int)->{ let e = E; if(x < 3, some(x + 1), none()) }).to_array()'),
    ('gen-nth', True, '[1, 2].to_generator().nth(0, (x: int)->{ let e = E; true })'),
    ('seq-nth', True, '[1, 2].nth(0, (x: int)->{ let e = E; true })'),
    ('seq-take_while', True, '[1, 2].take_while((x: int)->{ let e = E; true }).len()'),
    ('sort-comparator', True, '[2, 1].sort((a: int, b: int)->{ let e = E; cmp(a, b) })'),
    ('mapping-hash', True, 'mapping((k: int)->{ let e = E; k }, (a: int, b: int)->{ a == b }).set(1, 1).len()'),
    ('set-eq', True, 'set((k: int)->{ 0 }, (a: int, b: int)->{ let e = E; a == b }).add(1).add(2).len()'),
    ('in-catcher', True, 'if_error((()->{ let e = E; 1 })(), 0)'),
    ('lazy-never-forced', False, 'let s = [1, 2].map((x: int)->{E}); 7'),
    ('unselected-branch', False, 'if(false, (()->{ let e = E; 1 })(), 7)'),
    ('uncalled-function', False, 'let f = ()->{E}; 7'),
]


def configs(tier):
    out = []
    if tier == 'quick':
        for bits in itertools.product((True, False), repeat=6):
            out.append(dict(zip(PERMS, bits)))
        for p in PERMS:
            c = {q: (not DEFAULT[q]) for q in PERMS if q != p}  # every other permission flipped, p left unset
            out.append(c)
            c2 = {q: DEFAULT[q] for q in PERMS if q != p}
            out.append(c2)
        out.append({})
    else:
        for vals in itertools.product((True, False, None), repeat=6):
            out.append({p: v for p, v in zip(PERMS, vals) if v is not None})
    return out


def effective(cfg, perm):
    return cfg[perm] if perm in cfg else DEFAULT[perm]


def units():
    us = []
    for en, perm, expr, typ, dbl in EFFECTS:
        for pn, reached, tpl in PATHS:
            body = tpl.replace('E', expr).replace('T', typ)
            us.append((en, perm, dbl, pn, reached, body))
    return us


def _run_cfg(cfg):
    us = units()
    named = [('c%d' % i, 'let c%d = ()->{ %s };' % (i, u[5])) for i, u in enumerate(us)]
    outs = run_units(named, perms=cfg, dump={'max_items': 8})
    res = []
    prev = {'writes': 0, 'clock': 0, 'rng': 0, 'rng_created': 0}
    for (en, perm, dbl, pn, reached, body), o in zip(us, outs):
        c = o.c or prev
        d = {k: c.get(k, 0) - prev.get(k, 0) for k in prev}
        prev = {k: c.get(k, prev[k]) for k in prev}
        allowed = effective(cfg, perm)
        v = o.v
        why = None
        if isinstance(v, (Panic, Fatal, CErr, HostErr)):
            why = 'crash:' + type(v).__name__
        elif not reached:
            if isinstance(v, Viol):
                why = 'violation-on-unreached-effect'
            elif any(d.values()):
                why = 'effect-on-unreached-path'
        elif allowed:
            if isinstance(v, Viol):
                why = 'violation-although-permitted:' + v.kind
            elif dbl == 'w' and d['writes'] == 0:
                why = 'permitted-effect-did-not-happen'
            elif dbl == 'c' and d['clock'] == 0:
                why = 'permitted-effect-did-not-happen'
            elif dbl == 'r' and d['rng'] == 0:
                why = 'permitted-effect-did-not-happen'
            elif en == 'display' and pn in ('direct', 'in-function', 'returned-closure', 'nested-fn') and o.out != '41\n':
                why = 'wrong-output'
            elif en == 'display-prefix' and pn == 'direct' and o.out != 'p:41\n':
                why = 'wrong-output'
        else:
            if not (isinstance(v, Viol) and v.kind == 'PermissionError(%s)' % perm):
                why = 'effect-without-permission' if not isinstance(v, Viol) else 'wrong-violation:' + v.kind
            elif d['writes'] or d['clock'] or d['rng'] or d['rng_created']:
                why = 'double-touched-despite-forbidden'
        cls = 'violation' if isinstance(v, Viol) else ('error' if isinstance(v, Err) else 'value')
        res.append((en, pn, cls, why, repr(v), o.out, d))
    return res


def run(tier):
    rep = Report(PROP, tier, 'model_checking',
                 'complete product of %d effectful builtins x %d reaching / non-reaching paths x permission assignments '
                 '(quick: all 64 explicit + single-unset; thorough: all 3^6 allow/forbid/unset); oracle: permitted => effect on the '
                 'recording double, forbidden => PermissionError(id) and every double untouched, unreached => nothing; '
                 'non-trivial = distinct (effect, path, configuration)' % (len(EFFECTS), len(PATHS)))
    cfgs = configs(tier)
    rep.bounds = {'effects': len(EFFECTS), 'paths': len(PATHS), 'configurations': len(cfgs)}
    us = units()
    for cfg, res in zip(cfgs, pmap(_run_cfg, cfgs)):
        ck = ','.join('%s=%s' % (p, {True: '1', False: '0'}.get(cfg.get(p), '-')) for p in PERMS)
        rep.states += 1
        for (en, pn, cls, why, actual, out, d), u in zip(res, us):
            rep.evaluations += 1
            rep.transitions += 1
            rep.outcome(cls)
            rep.nontrivial_count += 1
            if why:
                named = [('c0', 'let c0 = ()->{ %s };' % u[5])]
                rep.fail(Failure(PROP, 'C11|%s|%s|%s|%s' % (en, pn, ck, why), {'effect': en, 'path': pn, 'perms': cfg, 'body': u[5]},
                                 'allowed=%s reached=%s' % (effective(cfg, u[1]), u[4]), '%s out=%r deltas=%r' % (actual, out, d),
                                 mk_unit_job([], named, perms=cfg)))
    rep.traces = rep.evaluations
    rep.sample({'perms': cfgs[0], 'body': us[0][5]})
    rep.sample({'perms': cfgs[len(cfgs) // 2], 'body': us[len(us) // 2][5]})
    rep.sample({'perms': cfgs[-1], 'body': us[-1][5]})
    rep.assumptions = ['the writer, clock and random source are recording doubles injected by the runner',
                       'regex compilation and sleep have no double: only the outcome is checked for them']
    return rep.finish()


def replay(rec):
    from ..table import replay_table
    return replay_table(rec)
