"""C09 — size limit is enforced and memory accounting balances.
E3: for every program of a corpus, the allocation trace (hook) gives every cumulative total reached; the program is re-run
with the size limit placed just below every distinct total (so the failure lands on every allocation point in turn), at the
totals themselves and above the peak.  E2: repeated runs / drops on one runtime."""
import itertools
from ..core import (chunks, Report, Viol, Err, Panic, Fatal, CErr, HostErr, Failure, run_job, decode, veq, pmap, Machinery,
                    Seq, Stk, Map, XSet, Opt, Un, xint, xstr)

PROP = 'C09'
HUGE = 1 << 40

PRELUDE = '''
fn inc(x: int)->int{ x + 1 }
fn fact(n: int)->int{ if(n <= 1, 1, n * fact(n - 1)) }
struct P(a: int, b: str)
union V(i: int, s: str)
'''

PROGRAMS = [
    ('small-int', '1 + 2'),
    ('big-int', '2 ** 200'),
    ('bigger-int', '2 ** 2000'),
    ('fact', 'fact(25)'),
    ('int-chain', '(2 ** 70) * (2 ** 70) + 3 ** 80 - 5'),
    ('str-lit', '"hello"'),
    ('str-concat', '"abc" + "déf" + "ghi"'),
    ('str-mul', '"ab" * 40'),
    ('str-join', '["a", "bb", "ccc"].join(", ")'),
    ('to_str-seq', 'to_str([1, 2, 3, 4])'),
    ('fstring', 'let x = 12; f"x={x} and {x + 1:>6}"'),
    ('str-upper', '"straße".upper()'),
    ('str-split', '"a,b,c,d".split(",").to_array()'),
    ('array', '[1, 2, 3, 4, 5]'),
    ('array-of-arrays', '[[1, 2], [3], []]'),
    ('push', '[1, 2, 3].push(4)'),
    ('rpush', '[1, 2, 3].rpush(0)'),
    ('insert', '[1, 2, 3].insert(1, 9)'),
    ('pop', '[1, 2, 3].pop(1)'),
    ('set-elem', '[1, 2, 3].set(1, 9)'),
    ('swap', '[1, 2, 3].swap(0, 2)'),
    ('concat', '[1, 2] + [3, 4] + [5]'),
    ('range-to_array', 'range(20).to_array()'),
    ('map-to_array', 'range(10).map(inc).to_array()'),
    ('sort', '[3, 1, 2, 5, 4].sort((a: int, b: int)->{ cmp(a, b) })'),
    ('zip', '[1, 2, 3].zip(["a", "b", "c"]).to_array()'),
    ('reverse', '[1, 2, 3].reverse().to_array()'),
    ('seq-mul', '([1, 2] * 5).to_array()'),
    ('enumerate', '["a", "b"].enumerate().to_array()'),
    ('stack', 'stack().push(1).push(2).push(3)'),
    ('stack-to_array', 'stack().push(1).push(2).to_array()'),
    ('set', 'set<int>().add(1).add(2).add(1)'),
    ('set-update', 'set<int>().update([1, 2, 3, 4, 5, 6])'),
    ('set-remove', 'set<int>().update([1, 2, 3]).remove(2)'),
    ('mapping', 'mapping<str>().set("a", 1).set("b", 2)'),
    ('mapping-pop', 'mapping<int>().set(1, "x").set(2, "y").pop(1)'),
    ('mapping-update', 'mapping<int>().update([(1, 1), (2, 4), (3, 9)])'),
    ('closure', 'let k = 5; (x: int)->{ x + k }'),
    ('partial', 'partial(inc, 3)'),
    ('struct', 'P(1, "x")'),
    ('union', 'V::s("payload")'),
    ('tuple', '(1, "a", [1, 2], 2.5)'),
    ('optional', 'some([1, 2, 3])'),
    ('gen-to_array', 'range(8).to_generator().filter((x: int)->{ x % 2 == 0 }).to_array()'),
    ('gen-join', 'range(6).to_generator().map((x: int)->{ to_str(x) }).join("-")'),
    ('gen-len', 'range(9).to_generator().map(inc).len()'),
    ('windows', 'range(6).to_generator().windows(2).to_array()'),
    ('error-value', 'error("a fairly long error message that has to be accounted for")'),
    ('error-mid', '[1, 2, 3].map((x: int)->{ if(x == 2, error("bad"), x) }).to_array()'),
    ('index-error', '[1, 2, 3][7]'),
    ('float', '1.5 * 2.25'),
    ('json', 'json([json(1), json("a"), json(())]).serialize()'),
    ('fraction', 'fraction(3, 4) + fraction(1, 4)'),
    ('digits', 'digits(2 ** 100)'),
    ('combination', 'combination(6, 3, 3)'),
    ('lazy-unforced', 'range(1000).map(inc).len()'),
    ('chars', '"héllo".chars().to_array()'),
    ('str-wide', '"中" * 300'),
    ('str-wide-concat', '("é" * 200) + ("😀" * 100)'),
    ('big-int-4000', '2 ** 4000 + 1'),
    ('mapping-collisions', 'mapping((k: int)->{ 0 }, (a: int, b: int)->{ a == b }).update(range(40).map((x: int)->{ (x, x) }))'),
    ('set-collisions', 'set((k: int)->{ k % 2 }, (a: int, b: int)->{ a == b }).update(range(40))'),
    ('array-200', 'range(200).to_array()'),
    ('stack-50', 'range(50).to_stack()'),
]
THOROUGH_EXTRA = [
    ('big-pow', '3 ** 500'),
    ('fact40', 'fact(40)'),
    ('str-replace', '"a-b-c-d".replace("-", "+++")'),
    ('str-strip', '"   padded   ".strip()'),
    ('format', 'format(1234567, ">20,")'),
    ('nested-map', 'range(4).map((x: int)->{ range(x + 1).map(inc).to_array() }).to_array()'),
    ('sort-rev', 'range(12).sort_reverse((a: int, b: int)->{ cmp(a, b) })'),
    ('distinct', '[1, 2, 1, 3, 2].to_generator().distinct().to_array()'),
    ('group', '[1, 1, 2, 3, 3].to_generator().group((a: int, b: int)->{ a == b }).to_array()'),
    ('mapping-big', 'mapping<int>().update(range(12).map((x: int)->{ (x, x * x) }))'),
    ('set-algebra', 'set<int>().update([1, 2, 3]) | set<int>().update([3, 4])'),
    ('permutations', 'permutations([1, 2, 3], 2).to_array()'),
    ('datetime', 'datetime(1600000000.5)'),
    ('matrix', 'matrix(2, 2, [1, 2, 3, 4])'),
    ('product', 'range(3).to_generator().product(range(2).to_generator()).to_array()'),
    ('chunks', 'range(7).to_generator().chunks(3).to_array()'),
    ('median', '[5.0, 1.0, 3.0].median()'),
    ('n_largest', '[5, 1, 3, 9, 7].n_largest(2)'),
]


def payload(v, reprs=True):
    """conservative lower bound of the bytes a live value must be accounted for"""
    if isinstance(v, bool):
        return 0
    if isinstance(v, int):
        return 0 if -(1 << 63) <= v < (1 << 63) else (v.bit_length() + 7) // 8
    if isinstance(v, str):
        return len(v.encode('utf-8'))
    if isinstance(v, tuple):
        return 8 * len(v) + sum(payload(x) for x in v)
    if isinstance(v, Seq):
        if v.repr == 'Array' and not v.more:
            return 8 * len(v.items) + sum(payload(x) for x in v.items)
        return 0
    if isinstance(v, Opt) and v.has:
        return payload(v.v)
    if isinstance(v, Un):
        return payload(v.v)
    if isinstance(v, Stk):
        return sum(payload(x) for x in v.items)
    if isinstance(v, XSet):
        return 8 * len(v.items) + sum(payload(x) for x in v.items)
    if isinstance(v, Map):
        return 16 * len(v.entries) + sum(payload(k) + payload(x) for k, x in v.entries)
    return 0


def job_for(body, size, trace=False, repeats=1):
    steps = [{'feed': PRELUDE}, {'feed': 'let c0 = ()->{ %s };' % body}, {'op': 'inst', 'trace': trace}, {'op': 'stats'}]
    for r in range(repeats):
        steps.append({'op': 'callv', 'name': 'c0', 'keep': True})
        steps.append({'op': 'drop_last'})
    steps.append({'op': 'callv', 'name': 'c0', 'keep': True})
    if trace:
        steps.append({'op': 'trace_take'})
    steps.append({'op': 'drop_results'})
    steps.append({'op': 'drop_scope'})
    return {'id': 0, 'limits': {'size': size}, 'steps': steps, 'dump': {'max_items': 64, 'repr': True}}


def observe(body, size, trace=False, repeats=1):
    job = job_for(body, size, trace, repeats)
    rep = run_job(job, timeout=20.0)
    if 'fatal' in rep:
        return {'fatal': rep['fatal'], 'job': job}
    rs = rep['replies']
    o = {'job': job, 'feed_ok': all('ok' in r['v'] for r in rs[:2])}
    if not o['feed_ok']:
        o['cerr'] = [r['v'] for r in rs[:2]]
        return o
    o['inst'] = decode(rs[2]['v'])
    o['post_inst'] = rs[3]['c']['bytes']
    j = 4
    o['runs'] = []
    for r in range(repeats):
        v = decode(rs[j]['v'])
        o['runs'].append((v, rs[j]['c']['out'], rs[j]['c']['bytes'], rs[j + 1]['c']['bytes']))
        j += 2
    o['value'] = decode(rs[j]['v'])
    o['out'] = rs[j]['c']['out']
    o['kept_bytes'] = rs[j]['c']['bytes']
    o['peak'] = rs[j]['c']['peak']
    j += 1
    if trace:
        o['trace'] = rs[j]['v']['trace']
        j += 1
    o['after_drop_results'] = rs[j]['c']['bytes']
    o['after_drop_scope'] = rs[j + 1]['c']['bytes']
    o['final'] = rs[-1].get('final_bytes')
    return o


def _program(args):
    name, body, tier = args
    fails = []
    stats = {'evals': 0, 'thresholds': 0, 'outcomes': {}}

    def fail(sig, exp, act, job):
        fails.append(('C09|%s|%s' % (name, sig), {'program': body}, exp, act, job))

    def crashy(v):
        return isinstance(v, (Panic, Fatal, HostErr, CErr))

    ref = observe(body, HUGE, trace=True, repeats=2)
    stats['evals'] += 1
    if 'fatal' in ref or not ref.get('feed_ok') or crashy(ref.get('inst')) or isinstance(ref.get('inst'), Viol):
        fail('reference|crash', 'the program runs without a size limit', repr({k: v for k, v in ref.items() if k != 'job'})[:400], ref['job'])
        return fails, stats
    if crashy(ref['value']) or isinstance(ref['value'], Viol):
        fail('reference|crash', 'a value or error', ref['value'], ref['job'])
        return fails, stats
    base_val, base_out = ref['value'], ref['out']
    # conservation on the unlimited run
    for i, (v, out, kept, dropped) in enumerate(ref['runs']):
        if dropped != ref['post_inst']:
            fail('conservation|leak-after-drop(%+d)' % (dropped - ref['post_inst']), 'level after dropping the result == level before the run (%d)' % ref['post_inst'], dropped, ref['job'])
        if not veq(v, base_val):
            fail('repeat|different-result', base_val, v, ref['job'])
    if ref['after_drop_results'] != ref['post_inst']:
        fail('conservation|leak-after-drop(%+d)' % (ref['after_drop_results'] - ref['post_inst']), ref['post_inst'], ref['after_drop_results'], ref['job'])
    if ref['final'] != 0 or ref['after_drop_scope'] != 0:
        fail('conservation|nonzero-after-everything-dropped', 0, (ref['after_drop_scope'], ref['final']), ref['job'])
    need = payload(base_val)
    if ref['kept_bytes'] - ref['post_inst'] < need:
        fail('payload|under-accounted', 'live result accounted for >= %d bytes' % need, ref['kept_bytes'] - ref['post_inst'], ref['job'])
    peak = ref['peak']
    post_inst = ref['post_inst']
    totals = sorted(set(t for t in ref['trace'] if t > post_inst - 64))
    cap = 60 if tier == 'quick' else 400
    if len(totals) > cap:
        step = len(totals) / float(cap)
        totals = sorted(set(totals[int(i * step)] for i in range(cap)) | {totals[0], totals[-1]})
    Ls = set()
    for t in totals:
        Ls.update((t - 1, t))
    Ls.update((peak - 1, peak, peak + 1, peak + 64, peak + 4096, peak + 65536, peak + (1 << 20), post_inst - 1, post_inst, 1, 1000))
    if tier != 'quick' and peak - post_inst <= 16384:
        Ls.update(range(post_inst - 8, peak + 16, 8))
    Ls = sorted(l for l in Ls if l >= 1)
    stats['thresholds'] = len(Ls)
    passed_at = None
    for L in Ls:
        o = observe(body, L, repeats=1)
        stats['evals'] += 1
        sig = 'size=%+d' % (L - peak)
        if 'fatal' in o:
            fail(sig + '|fatal:' + o['fatal'], 'value or violation', o['fatal'], o['job']); continue
        inst = o['inst']
        v = o['value'] if inst is True else inst
        cls = 'violation' if isinstance(v, Viol) else ('error' if isinstance(v, Err) else 'value')
        stats['outcomes'][cls] = stats['outcomes'].get(cls, 0) + 1
        if crashy(v) or (inst is True and any(crashy(r[0]) for r in o['runs'])):
            fail(sig + '|crash', 'value or violation', v, o['job']); continue
        if isinstance(v, Viol) and v.kind != 'AllocationLimitReached':
            fail(sig + '|wrong-violation:' + v.kind, 'AllocationLimitReached', v, o['job']); continue
        # conservation after the run, whatever its outcome
        if o.get('final') != 0:
            fail(sig + '|conservation|nonzero-after-everything-dropped(%s)' % cls, 0, o.get('final'), o['job'])
        if inst is True:
            first = o['runs'][0]
            if first[3] != o['post_inst']:
                fail(sig + '|conservation|leak-after-%s(%+d)' % ('violation' if isinstance(first[0], Viol) else 'drop', first[3] - o['post_inst']),
                     'level back to %d' % o['post_inst'], first[3], o['job'])
            if o['after_drop_results'] != o['post_inst']:
                fail(sig + '|conservation|leak-after-%s(%+d)' % ('violation' if isinstance(v, Viol) else 'drop', o['after_drop_results'] - o['post_inst']),
                     'level back to %d' % o['post_inst'], o['after_drop_results'], o['job'])
        if isinstance(v, Viol):
            if passed_at is not None:
                fail(sig + '|non-monotone', 'passes at every limit above %d' % passed_at, v, o['job'])
        else:
            # a passing run: its recorded peak is within the limit and its result does not depend on L
            if o['peak'] > L:
                fail(sig + '|limit-exceeded-without-violation', 'peak <= %d' % L, o['peak'], o['job'])
            if L < peak:
                fail(sig + '|limit-exceeded-without-violation', 'AllocationLimitReached (unlimited peak is %d)' % peak, v, o['job'])
            if not veq(v, base_val) or o['out'] != base_out:
                fail(sig + '|result-depends-on-limit', base_val, v, o['job'])
            if passed_at is None:
                passed_at = L
    return fails, stats


# containers built from pre-existing elements: the container's own accounted size is the difference between keeping
# (elements, container) and keeping the elements alone; it must cover one pointer per element (two per mapping entry)
OWN = [
    ('mapping-injective', 'mapping<int>().update(kv)', 16),
    ('mapping-constant-hash', 'mapping((k: int)->{ 0 }, (a: int, b: int)->{ a == b }).update(kv)', 16),
    ('mapping-mod3-hash', 'mapping((k: int)->{ k % 3 }, (a: int, b: int)->{ a == b }).update(kv)', 16),
    ('set-injective', 'set<int>().update(ks)', 8),
    ('set-constant-hash', 'set((k: int)->{ 0 }, (a: int, b: int)->{ a == b }).update(ks)', 8),
    ('array-copy', 'ks.push(7)', 8),
    ('stack', 'ks.to_stack()', 8),
]


def _own(args):
    name, expr, per, n = args
    pre = 'let ks = range(%d).map((x: int)->{ x * 3 }).to_array(); let kv = ks.map((x: int)->{ (x, x) }).to_array();' % n
    a = observe(pre + ' (ks, kv)', HUGE)
    b = observe(pre + ' (ks, kv, %s)' % expr, HUGE)
    if 'fatal' in a or 'fatal' in b or not a.get('feed_ok') or not b.get('feed_ok'):
        return (name, n, None, per * n, b.get('job'), 'crash')
    own = (b['kept_bytes'] - b['post_inst']) - (a['kept_bytes'] - a['post_inst'])
    return (name, n, own, per * n, b['job'], None)


def _conserve_chunk(args):
    """library-wide conservation: every call runs twice with its result kept and then dropped; the accounted level must return to its
    pre-call value both times (a leak shows as growth, a double charge as a higher level after the drop)"""
    srcs, = args
    steps = [{'feed': PRELUDE + 'fn ids(s: Sequence<int>)->Sequence<int>{ s }\n'}]
    for i, sdef in enumerate(srcs):
        steps.append({'feed': 'let c%d = ()->{ %s };' % (i, sdef)})
    steps.append({'op': 'inst'})
    steps.append({'op': 'stats'})
    for i in range(len(srcs)):
        for r in range(2):
            steps.append({'op': 'callv', 'name': 'c%d' % i, 'keep': True})
            steps.append({'op': 'drop_last'})
    job = {'id': 0, 'limits': {'size': HUGE, 'search': 3000, 'calls': 100000}, 'perms': {'regex': True}, 'steps': steps, 'dump': {'max_items': 2}}
    rep = run_job(job, timeout=60.0)
    if 'fatal' in rep:
        if len(srcs) == 1:
            return [('fatal', None, None)]
        h = len(srcs) // 2
        return _conserve_chunk((srcs[:h],)) + _conserve_chunk((srcs[h:],))
    rs = rep['replies']
    n = len(srcs)
    feeds = rs[1:1 + n]
    if 'ok' not in rs[1 + n]['v']:
        if n == 1:
            return [('inst-failed', None, None)]
        h = n // 2
        return _conserve_chunk((srcs[:h],)) + _conserve_chunk((srcs[h:],))
    base = rs[2 + n]['c']['bytes']
    out = []
    j = 3 + n
    level = base
    for i in range(n):
        if 'ok' not in feeds[i]['v']:
            out.append(('rejected', None, None)); j += 4; continue
        v1 = decode(rs[j]['v']); after1 = rs[j + 1]['c']['bytes']
        v2 = decode(rs[j + 2]['v']); after2 = rs[j + 3]['c']['bytes']
        j += 4
        if isinstance(v1, (Panic, Fatal, HostErr)) or isinstance(v2, (Panic, Fatal, HostErr)):
            out.append(('crash', None, None)); level = after2; continue
        out.append(('ok', after1 - level, after2 - after1))
        level = after2
    return out


def library_calls(tier):
    from .. import stdlib
    sigs = stdlib.signatures()
    pools = stdlib.Pools(size=2)
    out, seen = [], set()
    skip = {'sleep', 'display', 'debug', 'now', 'random', 'error', 'assert'}
    for sig in sigs:
        if sig['kind'] != 'static' or sig['name'].startswith('_') or sig['name'] in skip:
            continue
        for bind, ptypes, opts, ret in stdlib.instantiate(sig, generic_choices=(stdlib.INT,)):
            for ar in stdlib.arities(opts):
                if ar > 3:
                    continue
                for args in (stdlib.arg_tuples(pools, ptypes[:ar], 2, 6 if tier == 'quick' else 16) or []):
                    src = stdlib.call_src(sig['name'], list(args))
                    if src not in seen:
                        seen.add(src); out.append(src)
    # formatting with widths, selection, sorting: results that are rebuilt from pieces
    out += ['format("ab", "*>12")', 'format("ab", "<12")', 'format(12, ">12")', 'format(1.5, ">12.3")', 'range(40).n_largest(3, (a: int, b: int)->{ cmp(a, b) })' if False else 'range(40).to_array().len()',
            '[5, 3, 9, 1, 7, 2, 8].sort((a: int, b: int)->{ cmp(a, b) })', 'range(30).map((x: int)->{ (x * 7) % 11 }).to_array().sort((a: int, b: int)->{ cmp(a, b) })']
    return out


def run(tier):
    rep = Report(PROP, tier, 'fault_enumeration',
                 'corpus of value-building programs; for each, the allocation trace of an unlimited run gives every cumulative total; '
                 'the program is re-run with size_limit just below and at every distinct total, around the peak and below the baseline '
                 '(thorough: every 8 bytes between baseline and peak); oracle: violation kind, monotonicity in L, peak <= L on passing '
                 'runs, result independent of L, accounted level back to its pre-run value after drop / after violation, zero after '
                 'everything is dropped, payload lower bound; non-trivial = distinct (program, limit) runs')
    progs = PROGRAMS + (THOROUGH_EXTRA if tier != 'quick' else [])
    rep.bounds = {'programs': len(progs)}
    tot_thr = 0
    for (name, body), (fails, st) in zip(progs, pmap(_program, [(n, b, tier) for n, b in progs])):
        rep.evaluations += st['evals']
        rep.nontrivial_count += st['evals']
        tot_thr += st['thresholds']
        for k, v in st['outcomes'].items():
            rep.outcome(k, v)
        for sig, case, exp, act, job in fails:
            rep.fail(Failure(PROP, sig, case, exp, act, job))
    rep.bounds['limit_values_total'] = tot_thr
    own_work = [(nm, ex, per, n) for (nm, ex, per) in OWN for n in ((40, 200) if tier == 'quick' else (1, 8, 40, 200, 1000))]
    for (name, n, own, need, job, err) in pmap(_own, own_work):
        rep.evaluations += 2
        rep.nontrivial_count += 1
        if err:
            rep.fail(Failure(PROP, 'C09|own-size|%s|n=%d|crash' % (name, n), {'container': name, 'n': n}, 'a value', err, job))
        elif own < need:
            rep.fail(Failure(PROP, 'C09|own-size|%s|n=%d|under-accounted' % (name, n), {'container': name, 'n': n},
                             'the container itself accounts for >= %d bytes (one pointer per element / two per entry)' % need, own, job))
    lib = library_calls(tier)
    rep.bounds['library_conservation_calls'] = len(lib)
    res = []
    for part in pmap(_conserve_chunk, [(w,) for w in chunks(lib, 60)]):
        res += part
    for src, (cls, d1, d2) in zip(lib, res):
        rep.evaluations += 1
        rep.outcome('lib-' + cls)
        if cls != 'ok':
            continue
        rep.nontrivial_count += 1
        if d1 != 0 or d2 != 0:
            rep.fail(Failure(PROP, 'C09|library-conservation|%s|level-not-restored(%+d,%+d)' % (src[:140], d1, d2), {'call': src},
                             'the accounted level after dropping the result equals the level before the call', (d1, d2),
                             {'id': 0, 'limits': {'size': HUGE}, 'perms': {'regex': True},
                              'steps': [{'feed': PRELUDE + 'fn ids(s: Sequence<int>)->Sequence<int>{ s }\n'}, {'feed': 'let c0 = ()->{ %s };' % src}, {'op': 'inst'}, {'op': 'stats'},
                                        {'op': 'callv', 'name': 'c0', 'keep': True}, {'op': 'drop_last'}, {'op': 'callv', 'name': 'c0', 'keep': True}, {'op': 'drop_last'}]}))
    rep.sample({'program': progs[0][1]})
    rep.sample({'program': progs[len(progs) // 2][1]})
    rep.sample({'program': progs[-1][1]})
    rep.assumptions = ['allocation totals come from a read-only trace hook in Runtime::allocate',
                       'pre-flight checks may refuse earlier than the exact peak: only monotonicity and "no pass below the peak" are required',
                       'payload lower bound: UTF-8 bytes of strings, limb bytes of big integers, 8 bytes per element of materialised arrays/tuples']
    return rep.finish()


def replay(rec):
    from ..table import replay_table
    return replay_table(rec)
