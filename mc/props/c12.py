"""C12 — compilation is total, effect-free and deterministic.
E1 over texts: all token strings up to k tokens over the grammar's alphabet, all numeric-literal spellings up to a length,
single-token mutations of the shipped scripts and book examples, bracket nesting to depth 64.  Oracle: feed_file returns
(Ok or a rendered, non-empty error), never panics, never touches the writer / clock / random source, never evaluates user code;
the same texts give the same verdicts and error texts when compiled again in another process and in another order context."""
import itertools, re, os, glob, hashlib
from ..core import (Report, Failure, run_job, pmap, chunks, decode, Panic, Fatal, CErr, Machinery, xint)

PROP = 'C12'

TOKENS = ['let', 'fn', 'forward fn', 'struct', 'union', 'type', 'x', 'T', 'item0', 'f', '1', '1.5', '"s"', 'f"{x}"', 'r"s"', 'true',
          '+', '-', '*', '/', '**', '%', '==', '!=', '<', '>', '<=', '>=', '&&', '||', '&', '|', '^', '!',
          '(', ')', '[', ']', '{', '}', '::', '?:', '!:', '->', '?=', ',', ';', ':', '$', '.', '=']


def token_texts(k):
    for n in range(1, k + 1):
        for t in itertools.product(TOKENS, repeat=n):
            yield ' '.join(t)


NUM_ALPHA = '019_.eE-xbaf'


def literal_spellings(maxlen):
    """every string over the literal alphabet that the NUMBER_ANY rule derives (reference regex written from the grammar)"""
    num = re.compile(r'^(0x[0-9a-fA-F_]+|0b[01_]+|[0-9][0-9_]*(\.[0-9_]+)?([eE]-?[0-9][0-9_]*)?)$')
    out = []
    for n in range(1, maxlen + 1):
        for t in itertools.product(NUM_ALPHA, repeat=n):
            s = ''.join(t)
            if s[0] in '019' and num.match(s):
                out.append(s)
    return out


def py_value(s):
    """python's reading of a literal spelling: ('int', v) | ('float', v) | None when it is not representable"""
    t = s.replace('_', '')
    try:
        if t.startswith('0x'):
            return ('int', int(t[2:], 16)) if len(t) > 2 else None
        if t.startswith('0b'):
            return ('int', int(t[2:], 2)) if len(t) > 2 else None
        if re.fullmatch(r'[0-9]+', t):
            return ('int', int(t))
        if re.fullmatch(r'[0-9]+(\.[0-9]*)?([eE]-?[0-9]+)?', t):
            v = float(t)   # an empty fraction ("0._e1" -> "0.e1") reads like python's float
            return ('float', v) if v not in (float('inf'), float('-inf')) else None
    except ValueError:
        return None
    return None


TOK_RE = re.compile(r'\s+|//[^\n]*|/\*.*?\*/|f?r?#*"(?:\\.|[^"\\])*"#*|f?r?#*\'(?:\\.|[^\'\\])*\'#*|[A-Za-z_][A-Za-z_0-9]*|[0-9][0-9_]*(?:\.[0-9_]+)?(?:[eE]-?[0-9]+)?|\*\*|==|!=|<=|>=|&&|\|\||::|\?:|!:|->|\?=|.', re.S)
REPL = ['x', '1', '"s"', '(', ')', '{', '}', '[', ']', ',', ';', '+', '->', 'let']


def tokenize(src):
    return [m.group(0) for m in TOK_RE.finditer(src)]


def mutants(src, replacements=True, repl=None):
    repl = repl or REPL
    toks = tokenize(src)
    idx = [i for i, t in enumerate(toks) if not t.isspace() and not t.startswith('//') and not t.startswith('/*')]
    for i in idx:
        yield ''.join(toks[:i] + toks[i + 1:])                      # deletion
        yield ''.join(toks[:i] + [toks[i], ' ', toks[i]] + toks[i + 1:])   # duplication
        if replacements:
            for r in repl:
                if r != toks[i]:
                    yield ''.join(toks[:i] + [r] + toks[i + 1:])
    for a, b in zip(idx, idx[1:]):
        t = list(toks)
        t[a], t[b] = t[b], t[a]
        yield ''.join(t)                                              # adjacent swap


def corpus(tier):
    files = sorted(glob.glob('/repo/test_scripts/*.xr'), key=lambda p: (os.path.getsize(p), p))
    if tier == 'quick':
        files = files[:40]
    srcs = [open(f).read() for f in files]
    book = []
    for md in sorted(glob.glob('/repo/book/src/**/*.md', recursive=True)):
        for m in re.finditer(r'```xray[^\n]*\n(.*?)```', open(md).read(), re.S):
            book.append(m.group(1))
    if tier == 'quick':
        book = sorted(book, key=len)[:25]
    return srcs, book


def nesting_texts():
    out = []
    for d in (1, 2, 3, 8, 16, 32, 64):
        out.append('let a = %s1%s;' % ('(' * d, ')' * d))
        out.append('let a = %s1%s;' % ('[' * d, ']' * d))
        out.append('let a = %s1%s;' % ('(' * d, ',)' * d))
        out.append('let a: %sint%s = none();' % ('Optional<' * d, '>' * d))
        out.append('let a: %sint%s = none();' % ('Sequence<' * d, '>' * d))
        out.append('fn f()->int{ %s 1 %s }' % ('if(true, ' * d, ', 0)' * d))
        out.append('let a = %s 1;' % ('-' * d))
        out.append('let a = %s true;' % ('!' * d))
        out.append('let a = 1%s;' % ('.to_str()' * d))
        out.append('let a = f"%s";' % ('{1}' * d))
        out.append('let a = %s"x"%s;' % ('#' * d, '#' * d))
        out.append('let a = %s()->{%s 1 %s}%s;' % ('(', '()->{' * d, '}' * d, ')'))
        # every bracketed construct of the type grammar and of string interpolation, nested in itself (a construct whose
        # alternatives share a prefix is parsed once per alternative and level: exponential in the depth)
        out.append('fn f(x: %sint%s)->int{ 1 }' % ('(' * d, ')' * d))
        out.append('fn f(x: %sint%s)->int{ 1 }' % ('(' * d, ',)' * d))
        out.append('fn f(x: %sint%s)->int{ 1 }' % ('(' * d, ')->(int)' * d))
        out.append('fn f(x: %sint%s)->int{ 1 }' % ('()->(' * d, ')' * d))
        out.append('fn f(x: %sint, int%s)->int{ 1 }' % ('(' * d, ')->(int)' * d))
        out.append('fn f(x: %sbad!%s)->int{ 1 }' % ('(' * d, ')->(int)' * d))
        out.append('fn f(x: %sint%s->int{ 1 }' % ('(' * d, ')' * (d - 1)))
        out.append('let a: %sint%s = 1;' % ('(' * d, ')' * d))
        out.append('type TN = %sint%s;' % ('(Sequence<' * d, '>)' * d))
        out.append('let a = len{%sint%s};' % ('(' * d, ')' * d))
        fs, ff, fm = '1', '1', '1'
        for i in range(min(d, 40)):
            q = '#' * i
            fs = 'f%s"{%s}"%s' % (q, fs, q)
            ff = 'f%s"{%s:>3}"%s' % (q, ff, q)
            fm = 'f%s"a{%s}b{%s:x}"%s' % (q, fm if i < 3 else '1', fm, q)
        out.append('let a = %s;' % fs)
        out.append('let a = %s;' % ff)
        out.append('let a = %s;' % fm)
        out.append('let a = %s1%s;' % ('f"{' * min(d, 1), '}"' * min(d, 1)))
        out.append('let a = %s1%s;' % ('[(' * d, ', 2)]' * d))
        out.append('let a = %s1%s;' % ('some(' * d, ')' * d))
        out.append('let a = %s;' % ('x' + '::a' * d))
        out.append('let a = %s1%s;' % ('ff{int}(' * d, ')' * d))
        out.append('let a = 1 %s;' % ('+ (1 ' * d + ')' * d))
        out.append('struct NS(a: %sint%s)' % ('Optional<(' * d, ')>' * d))
    return out


def extra_texts(tier):
    """(family, texts): specialization shapes, identifier spellings, accepted twins of the type-rendering programs, nesting of
    literals whose levels have different but unifiable types"""
    out = {}
    spec = []
    pre = 'fn sp(a: int, b: int)->int{ a + b } fn sp(a: str)->int{ 1 } fn sg<T>(a: T, b: T)->T{ a } '
    tys = ['$', 'int', 'str', 'Sequence<int>', 'T']
    for m in range(0, 5):
        for ts in itertools.product(tys[:3] if tier == 'quick' else tys, repeat=m):
            if m >= 4 and len(set(ts)) > 2:
                continue
            for n in range(0, 4):
                for fname in ('sp', 'sg', 'len', 'nosuch'):
                    spec.append(pre + 'let v = %s{%s}(%s);' % (fname, ', '.join(ts), ', '.join(['1'] * n)) if m else pre + 'let v = %s(%s);' % (fname, ', '.join(['1'] * n)))
                    if m:
                        spec.append(pre + 'let v = %s{%s};' % (fname, ', '.join(ts)))
    out['specialization'] = list(dict.fromkeys(spec))
    from .c03 import IDENTS
    ids = IDENTS + ['item18446744073709551615', 'item18446744073709551614', 'item99999999999', 'item4294967295', 'item1099511627776', 'item' + '9' * 40, 'item0' * 3, 'x' * 5000, '_' * 300]
    out['identifiers'] = ['let %s = 1; let q = %s + 1;' % (i, i) for i in ids] + ['fn f(%s: int)->int{ %s } let t = (1, 2); let q = t::%s;' % (i, i, i) for i in ids] + \
        ['struct K(%s: int) let k = K(1); let q = k::%s;' % (i, i) for i in ids]
    nest = []
    for d in ((1, 2, 3, 8, 16, 24, 32, 48) if tier == 'quick' else range(1, 65)):
        nest.append('let a = %s[1]%s;' % ('[' * d, ', []]' * d))
        nest.append('let a = %s[1]%s;' % ('[[], ' * d, ']' * d))
        nest.append('let a = %ssome(1)%s;' % ('[' * d, ', none()]' * d) if False else 'let a = %s1%s;' % ('some(' * d, ')' * d))
        nest.append('let a = %s[1]%s;' % ('if(true, ' * d, ', [])' * d))
        nest.append('let a = %s(1, [])%s;' % ('[' * d, ', (1, [2])]' * d))
        nest.append('let a = %s1%s;' % ('[(' * d, ', [])]' * d))
    out['mixed-nesting'] = nest
    return out


def competing_error_texts(tier):
    """programs in which several errors compete for being reported (collections inside the compiler decide): the report must be
    the same every time"""
    out = []
    for n in (2, 3, 4, 6):
        names = ['fw%d' % i for i in range(n)]
        fwd = ' '.join('forward fn %s()->int;' % x for x in names)
        use = ' + '.join('%s()' % x for x in names)
        out.append('%s fn h()->int{ %s } let x = h();' % (fwd, use))
        out.append('%s fn h()->int{ %s } fn k()->int{ h() } let x = k();' % (fwd, use))
        out.append('fn w()->int{ %s fn h()->int{ %s } let x = h(); x }' % (fwd, use))
        out.append('%s %s let x = h0();' % (fwd, ' '.join('fn h%d()->int{ %s() + h%d() }' % (i, names[i], i + 1) for i in range(n - 1)) + ' fn h%d()->int{ %s() }' % (n - 1, names[-1])))
        out.append('%s fn h()->int{ %s } let l = ()->{ h() };' % (fwd, use))
        out.append('%s fn h()->int{ %s } let l = [h];' % (fwd, use))
        out.append('fn cp(%s)->int{ 1 } let x = cp(%s);' % (', '.join('a%d: int' % i for i in range(n)), ', '.join('"s%d"' % i for i in range(n))))
        out.append('struct CS(%s) let x = CS(%s);' % (', '.join('a%d: int' % i for i in range(n)), ', '.join('"s%d"' % i for i in range(n))))
        out.append('let x = [%s];' % ', '.join(('%d' % i) if i % 2 else '"s%d"' % i for i in range(n)))
        out.append(' '.join('fn ovc(a: T%d)->int{ 1 }' % i for i in range(n)))
        out.append('fn ovd<%s>(%s)->int{ 1 } let x = ovd(%s);' % (', '.join('G%d' % i for i in range(n)), ', '.join('a%d: G%d, b%d: G%d' % (i, i, i, i) for i in range(n)), ', '.join('1, "s"' for i in range(n))))
    return out


NEVER_EVALUATED = [
    'let a = display(1);', 'fn f()->int{ f() } let x = f();', 'fn f(n: int)->int{ f(n + 1) + 1 } let x = f(0);', 'let a = [1][5];',
    'let a = 1 / 0;', 'let a = count().to_array();', 'let a = random();', 'let a = now();', 'let a = regex("(");', 'let a = sleep(seconds(100.0));',
    'fn g(x: int ?= display(7))->int{ x }', 'let s = f"{display(3)}";', 'let a = (2 ** 1000000) ** 1000000;', 'let a = error("boom");',
    'struct S(a: int) let v = S(display(1));', 'let a = debug(1);', 'let l = ()->{ display(9) };',
]


ERR_TEMPLATES = [
    'let v: bool = "@";', 'fn f()->int{ "@" }', 'let v = no_such_name + "@";', 'let /*@*/ v: int = "s";', 'let v = len(1, "@", 2);',
    'struct S(a: int) let v = S("@");', 'let v = "@"::x;', 'let v: int = f"@{1}";', 'let v = if(1, "@", 2);', 'let v: int = r#"@"#;',
    'fn f(a: int ?= "@")->int{ a }', 'let v = (x: int)->{ "@" + x };',
]


def excerpt_texts(tier):
    """rejected programs whose offending span holds n characters of width 1..4 bytes after 0..3 bytes of padding: every byte offset
    a message renderer could cut at is covered"""
    out = []
    for ti, tpl in enumerate(ERR_TEMPLATES):
        for ch in 'a\u00e9\u4e2d\U0001f600'.encode().decode('unicode_escape'):
            if ti == 0:
                ns_ = range(0, 260) if tier != 'quick' else list(range(0, 24)) + list(range(60, 70)) + list(range(120, 132)) + list(range(150, 170)) + [255, 256, 257]
            else:
                ns_ = (0, 1, 2, 3, 31, 32, 33, 63, 64, 65, 79, 80, 81, 127, 128, 129, 159, 160, 161, 255, 256, 257, 1023, 1024, 1025) if tier != 'quick' else (0, 1, 64, 80, 128, 160, 161, 256)
            for n in ns_:
                for shift in range(4):
                    if ch == 'a' and shift:
                        continue
                    out.append(tpl.replace('@', 'x' * shift + ch * n))
    return list(dict.fromkeys(out))


def type_render_cases():
    """(program, fragment the message must contain): types with several parameters are rendered in declaration order"""
    prelude = 'struct P2<A, B>(a: A, b: B)\nstruct P3<A, B, C>(a: A, b: B, c: C)\nunion U2<A, B>(a: A, b: B)\nstruct P4<A, B, C, D>(a: A, b: B, c: C, d: D)\n'
    tys = {'int': '1', 'str': '"s"', 'float': '1.5', 'bool': 'true'}
    out = []
    for n, name in ((2, 'P2'), (3, 'P3'), (4, 'P4')):
        for combo in itertools.permutations(tys, n):
            t = '%s<%s>' % (name, ', '.join(combo))
            out.append((prelude + 'let v: Sequence<int> = %s(%s);' % (name, ', '.join(tys[c] for c in combo)), t))
            out.append((prelude + 'let v: %s = [1];' % t, t))
            out.append((prelude + 'let ok: %s = %s(%s); let ok2: Sequence<%s> = [%s(%s), ok];' % (t, name, ', '.join(tys[c] for c in combo), t, name, ', '.join(tys[c] for c in combo)), None))
            out.append((prelude + 'fn f(x: %s)->Sequence<int>{ x }' % t, t))
    for combo in itertools.permutations(tys, 2):
        t = 'U2<%s>' % ', '.join(combo)
        out.append((prelude + 'let v: %s = [1];' % t, t))
        t = 'Mapping<%s>' % ', '.join(combo)
        out.append(('let v: %s = [1];' % t, t))
        if combo[0] != 'float':
            out.append(('let v: Sequence<int> = mapping<%s>().set(%s, %s);' % (combo[0], tys[combo[0]], tys[combo[1]]), t))
        t = '(%s)' % ', '.join(combo)
        out.append(('let v: Sequence<int> = (%s);' % ', '.join(tys[c] for c in combo), t))
    return out


def _feed_chunk(args):
    """feed each text on ONE shared scope (a failed feed may leave names behind: the comparison is between identical histories)"""
    texts, parse_only = args
    job = {'id': 0, 'limits': {}, 'steps': [{'feed': t} for t in texts], 'parse_only': bool(parse_only)}
    rep = run_job(job, timeout=30.0)
    if 'fatal' in rep:
        at = rep.get('at')
        return ('fatal', rep['fatal'], at)
    res = []
    for r in rep['replies']:
        v = r.get('v', r)
        if 'parses' in v:
            res.append(('parses' if v['parses'] else 'noparse', '', (0, 0, 0)))
        elif 'ok' in v:
            res.append(('ok', '', tuple(r.get('fx', (0, 0, 0)))))
        elif 'cerr' in v:
            res.append(('cerr:' + v['cerr']['class'], v['cerr']['text'], tuple(r.get('fx', (0, 0, 0)))))
        elif 'panic' in v:
            from ..core import norm_loc
            res.append(('panic@' + norm_loc(v['panic'].get('loc', '')), v['panic'].get('msg', ''), tuple(r.get('fx', (0, 0, 0)))))
        else:
            res.append(('?', repr(v), (0, 0, 0)))
    return ('ok', res, None)


def _fresh_each(args):
    """each text on its own fresh scope, followed by instantiation-free checks; returns verdict list"""
    texts, = args
    out = []
    for t in texts:
        r = _feed_chunk(([t], False))
        if r[0] == 'fatal':
            out.append(('fatal:' + r[1], '', (0, 0, 0)))
        else:
            out.append(r[1][0])
    return out


def judge(rep, family, texts, results, fresh=False):
    for t, (cls, text, fx) in zip(texts, results):
        rep.evaluations += 1
        rep.outcome(cls.split('@')[0].split(':')[0] if not cls.startswith('cerr') else 'rejected')
        key = hashlib.sha1(t.encode()).hexdigest()[:12]
        short = t if len(t) <= 90 else t[:90] + '...'
        job = {'id': 0, 'limits': {}, 'steps': [{'feed': t}]}
        if cls.startswith('panic') or cls.startswith('fatal') or cls == '?':
            rep.fail(Failure(PROP, 'C12|%s|%s|%s|%s' % (family, key, short.replace('\n', ' ')[:60], cls), {'text': t}, 'Ok or a compilation error', '%s %s' % (cls, text[:200]), job))
            continue
        if cls.startswith('cerr') and not text.strip():
            rep.fail(Failure(PROP, 'C12|%s|%s|empty-error-text' % (family, key), {'text': t}, 'a rendered error message', repr(text), job))
        if any(fx):
            rep.fail(Failure(PROP, 'C12|%s|%s|effect-during-compilation' % (family, key), {'text': t}, 'writer/clock/rng untouched', fx, job))
        if cls in ('ok',) or cls.startswith('cerr'):
            rep.nontrivial.add(key)


def run_family(rep, family, texts, chunk, parse_only=False):
    """feed in chunks on shared scopes; every chunk is fed twice (two processes) and the verdict lists must be identical"""
    work = chunks(texts, chunk)
    a = list(pmap(_feed_chunk, [(w, parse_only) for w in work]))
    b = list(pmap(_feed_chunk, [(w, parse_only) for w in reversed(work)]))[::-1]
    for w, ra, rb in zip(work, a, b):
        if ra[0] == 'fatal' or rb[0] == 'fatal':
            # a crash of the whole process: find the culprit text with fresh scopes
            res = _fresh_each((w,))
            judge(rep, family, w, res)
            continue
        judge(rep, family, w, ra[1])
        if ra[1] != rb[1]:
            for t, x, y in zip(w, ra[1], rb[1]):
                if x != y:
                    key = hashlib.sha1(t.encode()).hexdigest()[:12]
                    rep.fail(Failure(PROP, 'C12|%s|%s|nondeterministic-verdict' % (family, key), {'text': t}, x, y, {'id': 0, 'limits': {}, 'steps': [{'feed': t}]}))
                    break
    return a


def _literal_values(args):
    lits, = args
    steps = []
    for i, l in enumerate(lits):
        steps.append({'feed': 'let a%d = %s;' % (i, l)})
    steps.append({'op': 'inst'})
    for i in range(len(lits)):
        steps.append({'op': 'get', 'name': 'a%d' % i})
    rep = run_job({'id': 0, 'limits': {}, 'steps': steps}, timeout=30.0)
    if 'fatal' in rep:
        return None
    rs = rep['replies']
    out = []
    for i in range(len(lits)):
        f = rs[i]['v']
        g = rs[len(lits) + 1 + i]['v']
        out.append((f, g))
    return out


def run(tier):
    rep = Report(PROP, tier, 'exploration',
                 'all token strings of <=k tokens over a %d-token alphabet (k=3 quick; k=4 thorough with a parse-only prefilter), all numeric '
                 'literal spellings up to 5 (quick) / 6 (thorough) characters plus long digit / hex / exponent runs, every single-token deletion, '
                 'duplication, replacement (14 tokens) and adjacent swap of the shipped scripts and book examples, bracket / operator / type '
                 'nesting to depth 64, programs whose evaluation would print, loop or fail; each chunk is compiled in two processes: no panic, '
                 'rendered error, doubles untouched, identical verdicts; accepted literals evaluate to Python\'s reading; '
                 'non-trivial = distinct texts with a verdict' % len(TOKENS))
    k = 3
    soup = list(token_texts(k))
    rep.bounds['token_strings_k%d' % k] = len(soup)
    run_family(rep, 'tokens', soup, 4000)
    if tier != 'quick':
        # k = 4: parse-only prefilter, a scope is built only for texts that parse
        four = [' '.join(t) for t in itertools.product(TOKENS, repeat=4)]
        rep.bounds['token_strings_k4'] = len(four)
        res = run_family(rep, 'tokens4-parse', four, 20000, parse_only=True)
        parsing = []
        pos = 0
        for w, r in zip(chunks(four, 20000), res):
            if r[0] == 'ok':
                parsing += [t for t, x in zip(w, r[1]) if x[0] == 'parses']
        rep.bounds['token_strings_k4_parsing'] = len(parsing)
        run_family(rep, 'tokens4', parsing, 4000)
    lits = literal_spellings(5 if tier == 'quick' else 6)
    lits += ['9' * n for n in list(range(1, 60)) + [100, 200, 309, 310, 400]] + ['0x' + 'f' * n for n in list(range(1, 40)) + [64, 100, 140]]
    lits += ['0b' + '1' * n for n in (1, 63, 64, 65, 127, 128, 129, 140)] + ['1e%d' % n for n in list(range(0, 40)) + [300, 307, 308, 309, 400]]
    lits += ['1e-%d' % n for n in (1, 10, 300, 323, 324, 325, 400)] + ['1.%se3' % ('0' * n + '1') for n in (1, 16, 17, 30)]
    lits = list(dict.fromkeys(lits))
    rep.bounds['literal_spellings'] = len(lits)
    run_family(rep, 'literals', ['let a = %s;' % l for l in lits], 3000)
    # values of accepted literals against python's reading
    import struct
    for w, res in zip(chunks(lits, 400), pmap(_literal_values, [(w,) for w in chunks(lits, 400)])):
        if res is None:
            continue
        for l, (f, g) in zip(w, res):
            rep.evaluations += 1
            want = py_value(l)
            job = {'id': 0, 'limits': {}, 'steps': [{'feed': 'let a = %s;' % l}, {'op': 'inst'}, {'op': 'get', 'name': 'a'}]}
            if 'ok' not in f:
                if want is not None and 'cerr' in f:
                    rep.fail(Failure(PROP, 'C12|literal-value|%s|rejected-should-accept' % l, {'literal': l}, want, f.get('cerr', {}).get('class'), job))
                continue
            got = decode(g)
            if want is None:
                rep.fail(Failure(PROP, 'C12|literal-value|%s|accepted-unrepresentable' % l, {'literal': l}, 'a compilation error', repr(got), job))
            elif want[0] == 'int' and not (isinstance(got, int) and not isinstance(got, bool) and got == want[1]):
                rep.fail(Failure(PROP, 'C12|literal-value|%s|wrong-value' % l, {'literal': l}, want, repr(got), job))
            elif want[0] == 'float' and not (isinstance(got, float) and struct.pack('<d', got) == struct.pack('<d', want[1])):
                rep.fail(Failure(PROP, 'C12|literal-value|%s|wrong-value' % l, {'literal': l}, want, repr(got), job))
    run_family(rep, 'nesting', nesting_texts(), 1)
    for fam, texts in extra_texts(tier).items():
        rep.bounds[fam + '_texts'] = len(texts)
        run_family(rep, fam, texts, 1 if fam == 'mixed-nesting' else 100)
    ex = excerpt_texts(tier)
    rep.bounds['error_excerpt_texts'] = len(ex)
    run_family(rep, 'error-excerpt', ex, 1 if False else 200)
    trc = type_render_cases()
    rep.bounds['type_rendering_programs'] = len(trc)
    for w, res in zip(chunks(trc, 40), pmap(_fresh_each, [([t for t, f in w],) for w in chunks(trc, 40)])):
        judge(rep, 'type-rendering', [t for t, f in w], res)
        for (t, frag), (cls, text, fx) in zip(w, res):
            key = hashlib.sha1(t.encode()).hexdigest()[:12]
            if frag is None:
                # the accepted twin: the same types in the same order are the same type, every time
                if cls != 'ok':
                    rep.fail(Failure(PROP, 'C12|type-rendering|%s|well-typed-twin-rejected' % key, {'text': t}, 'accepted', '%s %s' % (cls, text[:200]), {'id': 0, 'limits': {}, 'steps': [{'feed': t}]}))
                continue
            if not cls.startswith('cerr'):
                continue
            if frag not in text:
                rep.fail(Failure(PROP, 'C12|type-rendering|%s|%s|type-not-rendered-in-declaration-order' % (key, frag), {'text': t}, 'a message containing %s' % frag, text[:300],
                                 {'id': 0, 'limits': {}, 'steps': [{'feed': t}]}))
    ce = competing_error_texts(tier)
    rep.bounds['competing_error_texts'] = len(ce)
    reps = 8 if tier == 'quick' else 24
    for t, res in zip(ce, pmap(_fresh_each, [([t] * reps,) for t in ce])):
        judge(rep, 'competing-errors', [t], res[:1])
        rep.evaluations += reps - 1
        if len(set(res)) > 1:
            key = hashlib.sha1(t.encode()).hexdigest()[:12]
            a, b = sorted(set(res))[:2]
            rep.fail(Failure(PROP, 'C12|competing-errors|%s|nondeterministic-verdict' % key, {'text': t, 'repetitions': reps}, a, b, {'id': 0, 'limits': {}, 'steps': [{'feed': t}]}))
    run_family(rep, 'never-evaluated', NEVER_EVALUATED, 1)
    scripts, book = corpus(tier)
    muts = []
    for s in scripts + book:
        muts += list(mutants(s, replacements=(tier != 'quick' or len(s) < 400)))
    muts = list(dict.fromkeys(muts))
    rep.bounds['mutants'] = len(muts)
    # mutants are whole programs: each needs its own scope; parse-only first, then fresh scopes for the parsing ones
    pres = list(pmap(_feed_chunk, [(w, True) for w in chunks(muts, 3000)]))
    parsing = []
    for w, r in zip(chunks(muts, 3000), pres):
        if r[0] != 'ok':
            judge(rep, 'mutants-parse', w, _fresh_each((w,)))
            continue
        judge(rep, 'mutants-parse', w, r[1])
        parsing += [t for t, x in zip(w, r[1]) if x[0] == 'parses']
    rep.bounds['mutants_parsing'] = len(parsing)
    r1 = list(pmap(_fresh_each, [(w,) for w in chunks(parsing, 60)]))
    r2 = list(pmap(_fresh_each, [(w,) for w in reversed(chunks(parsing, 60))]))[::-1]
    for w, a, b in zip(chunks(parsing, 60), r1, r2):
        judge(rep, 'mutants', w, a)
        for t, x, y in zip(w, a, b):
            if x != y:
                key = hashlib.sha1(t.encode()).hexdigest()[:12]
                rep.fail(Failure(PROP, 'C12|mutants|%s|nondeterministic-verdict' % key, {'text': t}, x, y, {'id': 0, 'limits': {}, 'steps': [{'feed': t}]}))
    rep.sample(soup[len(soup) // 3])
    rep.sample('let a = %s;' % lits[len(lits) // 2])
    rep.sample(muts[len(muts) // 2][:300] if muts else '')
    rep.assumptions = ['token strings are joined with single spaces; mutations are single-point',
                       'determinism is checked between identical feed histories in two processes (and reversed scheduling order)',
                       'error texts are compared for equality between runs, never against a reference']
    return rep.finish()


def replay(rec):
    from ..table import replay_table
    return replay_table(rec)
