"""C14 — integers are exact at every magnitude.  E1 against Python int over complete pools."""
import math
from fractions import Fraction
from ..core import Report, xint, xstr, Seq
from ..table import run_table, replay_table, ERR, UNSPEC, NOTVAL, pred, predicate

PROP = 'C14'


def pool(tier):
    base = [0, 1, -1, 2, -2, 3, -3, 7, 10, -10]
    edges = []
    for k in ((31, 63, 64, 127) if tier == 'quick' else (31, 32, 62, 63, 64, 65, 126, 127, 128)):
        c = 1 << k
        for d in ((-1, 0, 1) if tier == 'quick' else (-3, -2, -1, 0, 1, 2, 3)):
            edges += [c + d, -(c + d)]
    edges += [(1 << 32) + 1, -((1 << 32) + 1), 10 ** 18, 10 ** 19, 10 ** 38, 3 ** 100, -(5 ** 90), (1 << 400) - 1]
    if tier != 'quick':
        edges += [0x1f3a9c5e77d1b2a4c3f0e9d8b7a6958473625140fedcba9876543210abcdef0123456789abc,
                  -0x2b7e151628aed2a6abf7158809cf4f3c762e7160f38b4da56a784d9045190cfef324e7738926cfbe5f4bf8d8d8c31d763da06,
                  (1 << 53) + 1, 1 << 53, -(1 << 53), 10 ** 400, 2 ** 200]
    seen, out = set(), []
    for v in base + edges:
        if v not in seen:
            seen.add(v)
            out.append(v)
    return out


def sign(x):
    return (x > 0) - (x < 0)


def div_model(a, b):
    """correctly rounded a/b as double, or ERR if not finite"""
    if b == 0:
        return ERR
    try:
        q = Fraction(a, b)
        f = q.numerator / q.denominator  # python int/int true division is correctly rounded
    except OverflowError:
        return ERR
    return f


@predicate
def float_close(v, want, ulps):
    """float result within `ulps` of the correctly rounded quotient (exact when ulps == 0)"""
    import struct
    if not isinstance(v, float):
        return False, 'wrong-type'
    if v == want:
        return True, ''
    if ulps == 0:
        return False, 'wrong-value'
    a = struct.unpack('<q', struct.pack('<d', v))[0]
    b = struct.unpack('<q', struct.pack('<d', want))[0]
    if (a < 0) != (b < 0):
        return False, 'wrong-value'
    return (abs(a - b) <= ulps, 'wrong-value' if abs(a - b) > ulps else '')


BINOPS = {
    'add': lambda a, b: a + b,
    'sub': lambda a, b: a - b,
    'mul': lambda a, b: a * b,
    'mod': lambda a, b: ERR if b == 0 else a % b,
    'div_floor': lambda a, b: ERR if b == 0 else a // b,
    'div_ceil': lambda a, b: ERR if b == 0 else -((-a) // b),
    'cmp': lambda a, b: sign(a - b),
    'eq': lambda a, b: a == b,
    'ne': lambda a, b: a != b,
    'lt': lambda a, b: a < b,
    'le': lambda a, b: a <= b,
    'gt': lambda a, b: a > b,
    'ge': lambda a, b: a >= b,
    'bit_and': lambda a, b: a & b,
    'bit_or': lambda a, b: a | b,
    'bit_xor': lambda a, b: a ^ b,
    'gcd': lambda a, b: math.gcd(a, b),
    'lcm': lambda a, b: UNSPEC if (a == 0 and b == 0) else (abs(a * b) // math.gcd(a, b) if a and b else 0),
    'min': lambda a, b: min(a, b),
    'max': lambda a, b: max(a, b),
}
OPSYM = {'add': '+', 'sub': '-', 'mul': '*', 'mod': '%', 'eq': '==', 'ne': '!=', 'lt': '<', 'le': '<=',
         'gt': '>', 'ge': '>=', 'bit_and': '&', 'bit_or': '|', 'bit_xor': '^'}


def iroot_floor(x, r):
    lo, hi = 0, 1
    while hi ** r <= x:
        hi *= 2
    while lo + 1 < hi:
        mid = (lo + hi) // 2
        if mid ** r <= x:
            lo = mid
        else:
            hi = mid
    return lo


def cases(tier):
    P = pool(tier)
    out = []

    def add(sig, src, exp, nt=True):
        out.append({'sig': 'C14|' + sig, 'src': src, 'exp': exp, 'nt': nt})

    for a in P:
        for b in P:
            for op, f in BINOPS.items():
                if op == 'lcm' and (a == 0 or b == 0):
                    continue  # book: lcm(0,0) error; lcm(x,0) unspecified
                add('%s|%d|%d' % (op, a, b), '%s(%s, %s)' % (op, xint(a), xint(b)), f(a, b))
                r = f(a, b)
                if isinstance(r, int) and not isinstance(r, bool) and abs(r) < (1 << 63) and (abs(a) >= (1 << 63) or abs(b) >= (1 << 63)):
                    # a long operand and a result that is short again: the result must BE the short integer (equality, zero test and
                    # hashing inside the language see the representation, the printed digits do not)
                    add('canon-%s|%d|%d' % (op, a, b), 'let r = %s(%s, %s); (r == %s, r - %s == 0, hash(r) == hash(%s), if(r == 0, 0, 7 %% r))' % (
                        op, xint(a), xint(b), xint(r), xint(r), xint(r)), (True, True, True, 0 if r == 0 else 7 % r))
            # operator spelling goes through the same function (spot check with the symbol)
            if tier != 'quick' or (abs(a) < 4 or abs(b) < 4):
                for op in ('add', 'sub', 'mul'):
                    add('sym-%s|%d|%d' % (op, a, b), '%s %s %s' % (xint(a), OPSYM[op], xint(b)), BINOPS[op](a, b))
            # true division
            want = div_model(a, b)
            if want is ERR:
                add('div|%d|%d' % (a, b), 'div(%s, %s)' % (xint(a), xint(b)), ERR)
            else:
                exact = abs(a) <= (1 << 53) and abs(b) <= (1 << 53)
                add('div|%d|%d' % (a, b), 'div(%s, %s)' % (xint(a), xint(b)), pred('float_close', want, 0 if exact else 1))
    for a in P:
        for b in (0, 1, 2, 3, 10, 63, 64, 65, 128):
            if abs(a) > (1 << 130) and b > 10:
                continue
            exp = ERR if (a == 0 and b == 0) else a ** b
            add('pow|%d|%d' % (a, b), 'pow(%s, %d)' % (xint(a), b), exp)
            add('sym-pow|%d|%d' % (a, b), '%s ** %d' % (xint(a), b), exp)
        if a in (0, 1, -1):
            # the trivial bases with exponents of every magnitude and parity (the result never grows)
            for b in ((1 << 31), 1 << 32, 3 << 32, 1 << 33, (1 << 32) + (1 << 31), 1 << 48, 1 << 62, (1 << 63) - (1 << 32), (1 << 32) + 1, (1 << 62) + 1, (1 << 63) - 1, 1 << 63, (1 << 63) + 1, (1 << 64) - 1, 1 << 64, (1 << 64) + 1, (1 << 127) - 1, (1 << 70) + 1, 3 ** 50, 1 << 200):
                exp = a ** (b % 2 + 2) if a else 0
                add('pow-trivial-base|%d|%d' % (a, b), 'pow(%s, %s)' % (xint(a), xint(b)), exp)
                add('pow-trivial-base-eq|%d|%d' % (a, b), '(%s ** %s) == %s' % (xint(a), xint(b), xint(exp)), True)
        add('pow|%d|-1' % a, 'pow(%s, -1)' % xint(a), ERR)
        add('neg|%d' % a, 'neg(%s)' % xint(a), -a)
        add('abs|%d' % a, 'abs(%s)' % xint(a), abs(a))
        add('sign|%d' % a, 'sign(%s)' % xint(a), sign(a))
        add('to_str|%d' % a, 'to_str(%s)' % xint(a), str(a))
        add('hash-range|%d' % a, 'hash(%s)' % xint(a), pred('int_in_range', 0, (1 << 64) - 1))
        add('hash-stable|%d' % a, 'hash(%s) == hash((%s + 1) - 1)' % (xint(a), xint(a)), True)
        try:
            tf = float(a)
        except OverflowError:
            tf = ERR
        add('to_float|%d' % a, 'to_float(%s)' % xint(a), tf)
        # text round trips
        add('to_int-dec|%d' % a, 'to_int(%s)' % xstr(str(a)), a)
        for base in ((2, 8, 10, 16, 36) if tier == 'quick' else range(2, 37)):
            digs = '0123456789abcdefghijklmnopqrstuvwxyz'
            n, s = abs(a), ''
            while True:
                s = digs[n % base] + s
                n //= base
                if n == 0:
                    break
            txt = ('-' if a < 0 else '') + s
            add('to_int|%d|%d' % (a, base), 'to_int(%s, %d)' % (xstr(txt), base), a)
            if base > 10:
                add('to_int-upper|%d|%d' % (a, base), 'to_int(%s, %d)' % (xstr(txt.upper()), base), a)
        for spec, fmt in (('b', 'b'), ('o', 'o'), ('x', 'x'), ('X', 'X'), ('', 'd')):
            # the book does not say whether mode X upper-cases the digits: compared case-insensitively
            wrap = (lambda e: 'lower(%s)' % e) if spec == 'X' else (lambda e: e)
            add('format|%s|%d' % (spec, a), wrap('format(%s, %s)' % (xint(a), xstr(spec))), format(a, fmt).lower() if spec == 'X' else format(a, fmt))
            if spec:
                add('format-alt|%s|%d' % (spec, a), wrap('format(%s, %s)' % (xint(a), xstr('#' + spec))),
                    format(a, '#' + fmt).lower() if spec == 'X' else format(a, '#' + fmt))
        for base in (2, 10, 1 << 31, 1 << 32, (1 << 63) - 1, 1 << 63, (1 << 63) + 1, 1 << 64, (1 << 64) + 1, 1 << 127, 10 ** 19):
            # any sign, any base magnitude: the digits rebuild the number, each is smaller than the base and none has the other sign
            if abs(a).bit_length() > 450 * (base.bit_length() - 1):
                continue    # more digits than a dump shows
            add('digits-law|%d|%d' % (a, base), 'digits(%s, %s)' % (xint(a), xint(base)), pred('digits_rebuild', a, base))
        if a >= 0:
            for base in (2, 3, 7, 10, 16, 36, 1 << 64):
                n, ds = a, []
                while n:
                    ds.append(n % base)
                    n //= base
                add('digits|%d|%d' % (a, base), 'digits(%s, %s)' % (xint(a), xint(base)), pred('seq_is', ds))
            add('digits-default|%d' % a, 'digits(%s)' % xint(a), pred('seq_is', [int(c) for c in reversed(str(a))] if a else []))
    # canonical-form law: every pool value computed by several routes is indistinguishable
    big = xint(1 << 200)
    for v in P:
        routes = {
            'lit': xint(v),
            'inc': '(%s + 1)' % xint(v - 1),
            'muldiv': 'div_floor(%s * 3, 3)' % xint(v),
            'negneg': '(-(-%s))' % xint(v),
            'text': 'to_int(to_str(%s))' % xint(v),
            'bigshift': '((%s + %s) - %s)' % (xint(v), big, big),
            'xor0': 'bit_xor(%s, 0)' % xint(v),
            'halves': '(%s + %s)' % (xint(v // 2), xint(v - v // 2)),
        }
        for name, src in routes.items():
            if name == 'lit':
                continue
            add('route-value|%s|%d' % (name, v), src, v)
            add('route-eq|%s|%d' % (name, v), '%s == %s' % (src, routes['lit']), True)
            add('route-hash|%s|%d' % (name, v), 'hash(%s) == hash(%s)' % (src, routes['lit']), True)
            add('route-str|%s|%d' % (name, v), 'to_str(%s)' % src, str(v))
            add('route-cmp|%s|%d' % (name, v), '(cmp(%s, %s), cmp(%s, %s), cmp(%s, 0))' % (
                src, routes['lit'], src, xint(v + 1), src), (0, -1, sign(v)))
            add('route-key|%s|%d' % (name, v), 'mapping<int>().set(%s, 1).get(%s)' % (routes['lit'], src), 1)
    # float -> int conversions are exact for every finite float (floor / ceil / trunc)
    import struct
    fls = set()
    for k in (0, 1, 31, 52, 53, 62, 63, 64, 65, 100, 127, 128, 1023):
        base = float(2 ** k)
        bits = struct.unpack('<q', struct.pack('<d', base))[0]
        for d in (-2, -1, 0, 1, 2):
            f = struct.unpack('<d', struct.pack('<q', bits + d))[0]
            fls.update((f, -f))
    fls.update((0.0, 0.5, -0.5, 1.5, -1.5, 2.5, 1e15 + 0.5, -1e15 - 0.5, 4503599627370495.5, 9007199254740993.0, 1e300, -1e300,
                1.7976931348623157e308, 5e-324, -5e-324, 0.9999999999999999))
    for v in P:
        try:
            f = float(v)
        except OverflowError:
            continue
        fls.add(f)
    from ..core import xfloat
    for f in sorted(fls):
        for fn, pf in (('floor', math.floor), ('ceil', math.ceil), ('trunc', math.trunc)):
            add('%s|%r' % (fn, f), '%s(%s)' % (fn, xfloat(f)), pf(f))
    # factorial, binomial, multinomial, roots
    for n in range(0, 26 if tier == 'quick' else 61):
        add('factorial|%d' % n, 'factorial(%d)' % n, math.factorial(n))
        for step in (2, 3):
            f, k = 1, n
            while k > 1:
                f *= k
                k -= step
            add('factorial|%d|%d' % (n, step), 'factorial(%d, %d)' % (n, step), f)
    for n in (list(range(0, 21)) + [30, 40, 62, 66, 67, 68, 70, 80] if tier == 'quick' else range(0, 81)):
        for k in range(0, n + 1):
            add('binom|%d|%d' % (n, k), 'binom(%d, %d)' % (n, k), math.comb(n, k))
    add('binom|2^64|2', 'binom(%s, 2)' % xint(1 << 64), math.comb(1 << 64, 2))
    add('binom|2^70|3', 'binom(%s, 3)' % xint(1 << 70), math.comb(1 << 70, 3))
    vals = (0, 1, 2, 5, 30, 40)
    import itertools
    for ln in (1, 2, 3):
        for ks in itertools.product(vals, repeat=ln):
            num = math.factorial(sum(ks))
            for k in ks:
                num //= math.factorial(k)
            add('multinom|%s' % ','.join(map(str, ks)), 'multinom([%s])' % ', '.join(map(str, ks)), num)
    # folds over sequences and generators (their own accumulation loops)
    for a in P:
        for b in P:
            add('sum-seq|%d|%d' % (a, b), 'sum([%s, %s])' % (xint(a), xint(b)), a + b)
            add('product-seq|%d|%d' % (a, b), 'product([%s, %s])' % (xint(a), xint(b)), a * b)
    sub = [v for v in P if abs(v) in (0, 1, 3, (1 << 31), (1 << 32) + 1, (1 << 63) - 1, 1 << 63, (1 << 63) + 1, 1 << 64, 10 ** 19)]
    for a in sub:
        for b in sub:
            for c in sub:
                add('sum-gen|%d|%d|%d' % (a, b, c), '[%s, %s, %s].to_generator().sum()' % (xint(a), xint(b), xint(c)), a + b + c)
                add('product-gen|%d|%d|%d' % (a, b, c), '[%s, %s, %s].to_generator().product()' % (xint(a), xint(b), xint(c)), a * b * c)
                add('sum-seq3|%d|%d|%d' % (a, b, c), '[%s, %s, %s].sum()' % (xint(a), xint(b), xint(c)), a + b + c)
    edge = []
    for k in (31, 32, 63, 64) if tier == 'quick' else (31, 32, 62, 63, 64, 65, 127, 128):
        edge += [(1 << k) + d for d in ((-2, -1, 0, 1) if tier == 'quick' else (-3, -2, -1, 0, 1, 2))]
    for n in edge:
        for k in (0, 1, 2, 3):
            add('binom-edge|%d|%d' % (n, k), 'binom(%s, %d)' % (xint(n), k), math.comb(n, k))
        for tail in ((1,), (2,), (1, 1), (2, 1), (1, 1, 1), (3, 2), (0, 1), (1, 0, 1)):
            for ks in ((n,) + tail, tail + (n,), tail[:1] + (n,) + tail[1:]):
                num, tot = 1, 0
                for k in sorted(ks, reverse=True):
                    tot += k
                    num *= math.comb(tot, k)
                add('multinom-edge|%s' % ','.join(map(str, ks)), 'multinom([%s])' % ', '.join(xint(k) for k in ks), num)
    for r in (2, 3, 4):
        bases = list(range(0, 12)) + [255, 256, 1000, (1 << 16), (1 << 20) + 7, 3 ** 13]
        if tier != 'quick':
            bases += [(1 << 26) - 1, (1 << 31) + 11, 10 ** 9 + 7, (1 << 17) + 1]
        xs = set()
        for b in bases:
            p = b ** r
            if p < (1 << 62):  # roots are searched over an i64 range; larger radicands give an error value
                xs.update((p - 1, p, p + 1))
        for x in sorted(x for x in xs if x >= 0):
            fl = iroot_floor(x, r)
            ce = fl if fl ** r == x else fl + 1
            if r == 2:
                add('floor_root|%d' % x, 'floor_root(%s)' % xint(x), fl)
                add('ceil_root|%d' % x, 'ceil_root(%s)' % xint(x), ce)
            add('floor_root|%d|%d' % (x, r), 'floor_root(%s, %d)' % (xint(x), r), fl)
            add('ceil_root|%d|%d' % (x, r), 'ceil_root(%s, %d)' % (xint(x), r), ce)
    return out


@predicate
def digits_rebuild(v, n, base):
    if not isinstance(v, Seq) or v.more:
        return False, 'not-a-complete-sequence'
    ds = list(v.items)
    if any(not isinstance(d, int) or isinstance(d, bool) for d in ds):
        return False, 'non-integer-digit'
    if sum(d * base ** i for i, d in enumerate(ds)) != n:
        return False, 'digits-do-not-rebuild-the-number'
    if any(abs(d) >= base or (d and (d < 0) != (n < 0)) for d in ds):
        return False, 'digit-out-of-range'
    if ds and ds[-1] == 0:
        return False, 'leading-zero-digit'
    return True, ''


@predicate
def int_in_range(v, lo, hi):
    ok = isinstance(v, int) and not isinstance(v, bool) and lo <= v <= hi
    return ok, '' if ok else 'out-of-range'


@predicate
def seq_is(v, items):
    ok = isinstance(v, Seq) and v.ln == len(items) and v.items == list(items)[:len(v.items)] and (not v.more or len(items) > len(v.items))
    return ok, '' if ok else 'wrong-value'


OPTS = {'dump': {'max_items': 500}}


def run(tier):
    rep = Report(PROP, tier, 'model_checking',
                 'every integer builtin x every operand tuple from the pool (complete product), compared with Python int; '
                 'non-trivial = distinct (operation, operands) whose reference verdict is defined')
    cs = cases(tier)
    rep.bounds = {'pool_size': len(pool(tier)), 'cases': len(cs)}
    run_table(rep, cs, OPTS)
    # results that cannot be represented within the configured size: an error or a violation, never a (truncated) value
    lim = []
    for a in (2, -2, 3, 10, (1 << 63) - 1, 1 << 64):
        for b in (1 << 32, 3 << 32, 1 << 33, (1 << 32) + 1, 1 << 48, (1 << 63) - 1, 1 << 63, 1 << 64, (1 << 64) + 5, 1 << 100):
            lim.append({'sig': 'C14|pow-unrepresentable|%d|%d' % (a, b), 'src': 'pow(%s, %s)' % (xint(a), xint(b)), 'exp': NOTVAL, 'nt': True})
            lim.append({'sig': 'C14|sym-pow-unrepresentable|%d|%d' % (a, b), 'src': '(%s ** %s) == 1' % (xint(a), xint(b)), 'exp': NOTVAL, 'nt': True})
    rep.bounds['unrepresentable_cases'] = len(lim)
    run_table(rep, lim, dict(OPTS, limits={'size': 1 << 24, 'search': 100000}))
    cs = cs + lim
    rep.states = len(cs)
    rep.transitions = rep.evaluations
    rep.traces = rep.evaluations
    rep.assumptions = ['Python int / fractions.Fraction / math.comb are the reference',
                       'lcm with a zero operand is unspecified (book and statement disagree) and not compared']
    return rep.finish()


def replay(rec):
    return replay_table(rec, OPTS)
