"""C08 — depth, recursion, call and search limits are exact and transparent.
E3: every limit value L from 1 to beyond the program's need, each limit separately and all four combined, over a corpus of
programs with closed-form nesting depth D, call count N, tail-iteration count R and search length S.
E2: all histories of host calls (run / reset) up to a depth on one runtime, against a counter model."""
import itertools, json
from ..core import (Report, Viol, Err, Panic, Fatal, CErr, HostErr, Failure, run_job, decode, veq, pmap, Machinery)

PROP = 'C08'

PRELUDE = '''
fn inc(x: int)->int{ x + 1 }
fn pos(x: int)->bool{ x >= 0 }
fn add2(a: int, b: int)->int{ a + b }
fn down(n: int)->int{ if(n == 0, 0, 1 + down(n - 1)) }
fn loop(n: int, a: int)->int{ if(n == 0, a, loop(n - 1, a + 1)) }
fn wrap(x: int)->int{ inc(x) }
fn ge(k: int)->(int)->(bool){ (x: int)->{ x >= k } }
fn lt(k: int)->(int)->(bool){ (x: int)->{ x < k } }
fn shout(x: int)->int{ display(x) }
fn walk(n: int, step: int ?= 1)->int{ if(n <= 0, 0, walk(n - step)) }
fn walk2(n: int, acc: int ?= 0, step: int ?= 1)->int{ if(n <= 0, acc, walk2(n - step, acc + 1)) }
fn eq2(a: int, b: int)->bool{ a == b }
fn eqmod2(a: int, b: int)->bool{ a % 2 == b % 2 }
fn same(a: int, b: int)->bool{ true }
fn pair(x: int)->Generator<int>{ [x, x].to_generator() }
'''

BIG = 10 ** 9


def templates(ks):
    """(name, body, D, N, R, S, exact) — the unit lambda itself contributes one frame and one call.
    exact=False: D and N are lower bounds (library code written in the language / unspecified callback counts)"""
    out = []
    for k in ks:
        out.append(('down(%d)' % k, 'down(%d)' % k, k + 2, k + 2, 0, 0, True))
        out.append(('loop(%d)' % k, 'loop(%d, 0)' % k, 2, 2, k, 0, True))
        out.append(('map-forced(%d)' % k, 'range(%d).map(inc).to_array()' % k, 2, 1 + k, 0, 0, True))
        out.append(('map-len(%d)' % k, 'range(%d).map(inc).len()' % k, 1, 1, 0, 0, True))
        out.append(('map-get(%d)' % k, 'range(%d).map(inc)[%d]' % (k, k - 1), 2, 2, 0, 0, True))
        out.append(('map-wrap(%d)' % k, 'range(%d).map(wrap).to_array()' % k, 3, 1 + 2 * k, 0, 0, True))
        out.append(('filter(%d)' % k, 'range(%d).to_generator().filter(pos).to_array()' % k, 2, 1 + k, 0, k, True))  # consuming a generator is a search
        out.append(('nth(%d)' % k, 'count().nth(0, ge(%d))' % k, 2, 1 + 1 + (k + 1), 0, k + 1, True))
        out.append(('take_while(%d)' % k, 'count().take_while(lt(%d)).len()' % k, 2, 1 + 1 + (k + 1), 0, k + 1, True))
        # searches over finite sequences / generators that examine every one of k elements and no more
        out.append(('skip_until-fin(%d)' % k, 'range(%d).skip_until(ge(%d)).len()' % (k, k), 2, 1 + 1, 0, k, False))
        out.append(('take_while-fin(%d)' % k, 'range(%d).take_while(lt(%d)).len()' % (k, k), 2, 1 + 1, 0, k, False))
        out.append(('first-fin(%d)' % k, 'range(%d).first(ge(%d)).has_value()' % (k, k), 2, 1 + 1, 0, k, False))
        out.append(('any-fin(%d)' % k, 'range(%d).any(ge(%d))' % (k, k), 2, 1 + 1, 0, k, False))
        out.append(('all-fin(%d)' % k, 'range(%d).all(lt(%d))' % (k, k), 2, 1 + 1, 0, k, False))
        out.append(('nth-fin(%d)' % k, 'range(%d).nth(0, ge(%d)).has_value()' % (k, k), 2, 1 + 1, 0, k, False))
        # (elements a lazy generator adaptor drops are charged nowhere: the budget is charged where a generator is consumed; not specified)
        out.append(('gen-take_while-fin(%d)' % k, 'range(%d).to_generator().take_while(lt(%d)).len()' % (k, k), 2, 1 + 1, 0, k, False))
        out.append(('loop-in-map(%d)' % k, 'range(2).map((x: int)->{ loop(%d, 0) }).to_array()' % k, 3, 1 + 2 * 2, k, 0, True))
        out.append(('tail-default(%d)' % k, 'walk(%d)' % k, 2, 2, k, 0, True))
        out.append(('tail-default2(%d)' % k, 'walk2(%d)' % k, 2, 2, k, 0, True))
        out.append(('down+loop(%d)' % k, '(down(%d), loop(%d, 0))' % (k, k), k + 2, k + 2 + 1, k, 0, True))
        out.append(('down-in-map(%d)' % k, 'range(1).map((x: int)->{ down(%d) }).to_array()' % k, k + 3, 1 + 1 + (k + 1), 0, 0, True))
        out.append(('seq-eq(%d)' % k, 'range(%d) == range(%d)' % (k, k), 1, 1, 0, k, True))
        out.append(('printing(%d)' % k, 'range(%d).map(shout).to_array()' % k, 2, 1 + k, 0, 0, True))
        out.append(('reduce(%d)' % k, 'range(%d).reduce(add2)' % (k + 1), 2, 1 + k, 0, 0, False))
        out.append(('sort(%d)' % k, 'range(%d).map((x: int)->{ %d - x }).sort((a: int, b: int)->{ cmp(a, b) })' % (k + 1, k), 2, 1 + k, 0, 0, False))
        # generator pipelines over k source elements: every node examines what it pulls and no more.  (out, pulled) = elements the
        # consumer pulls / the most any node pulls; where they agree the threshold is exact, otherwise only monotonicity and
        # transparency are checked
        pipes = [('', k, k), ('.map(inc)', k, k), ('.filter(pos)', k, k), ('.take_while(pos)', k, k), ('.skip_until(pos)', k, k), ('.enumerate()', k, k),
                 ('.windows(2)', max(k - 1, 0), k), ('.chunks(2)', (k + 1) // 2, k), ('.group(eq2)', k, k), ('.group(eqmod2)', k, k), ('.group(same)', min(k, 1), k),
                 ('.distinct()', k, k), ('.with_count()', k, k), ('.aggregate(add2)', k, k), ('.aggregate(0, add2)', k + 1, k + 1), ('.zip(range(%d).to_generator())' % k, k, k),
                 ('.repeat(2)', 2 * k, 2 * k), ('.take(2)', min(k, 2), min(k, 2)), ('.skip(1)', k - 1, k), ('.map(pair).flatten()', 2 * k, 2 * k),
                 ('.product([1, 2].to_generator())', 2 * k, 2 * k), ('.group(eq2).map((g: Sequence<int>)->{ g.len() })', k, k), ('.filter(pos).group(eqmod2)', k, k),
                 ('.group(eq2).map((g: Sequence<int>)->{ g.to_generator() }).flatten()', k, k)]
        for ptxt, outn, pulled in pipes:
            if 'flatten' in ptxt or 'repeat' in ptxt:
                pulled = outn + 1   # written in the language as a fold with a seed: the seed is an element of the folded stream
            if 'chunks' in ptxt:
                pulled = k + 2      # written in the language: a filter over an aggregate of the elements, a seed and an end marker
            for ctxt in ('.to_array()', '.len()', '.last()'):
                out.append(('pipe%s%s(%d)' % (ptxt, ctxt, k), 'range(%d).to_generator()%s%s' % (k, ptxt, ctxt), 1, 1, 0, outn if outn == pulled else 0, False))
    # a call that is skipped because an argument is an error value is not a call: its body never starts
    out.append(('skipped-calls', '(is_error(inc(error("e"))), is_error(inc(error("e"))), is_error(inc(error("e"))), inc(1))', 2, 2, 0, 0, True))
    out.append(('skipped-calls-lambda', 'let f = (x: int)->{ x }; (is_error(f(error("e"))), is_error(f(error("e"))), f(1))', 2, 2, 0, 0, True))
    out.append(('closure', 'let h = ge(2); h(5)', 2, 3, 0, 0, True))
    out.append(('default-param', 'let f = (x: int ?= inc(1))->{ x }; f() + f()', 2, 4, 0, 0, True))
    out.append(('no-calls', '1 + 2', 1, 1, 0, 0, True))
    out.append(('gcd', 'gcd(12, 18)', 2, 2, 0, 0, False))
    out.append(('lcm', 'lcm(4, 6)', 2, 2, 0, 0, False))
    out.append(('str-split', '"a,b,c".split(",").to_array()', 2, 2, 0, 0, False))
    out.append(('seq-reverse', '[1, 2, 3].reverse().to_array()', 2, 2, 0, 0, False))
    out.append(('abs', 'abs(-3)', 2, 2, 0, 0, True))
    return out


def build_job(temps, limits, reset_between):
    steps = [{'feed': PRELUDE}]
    for i, t in enumerate(temps):
        steps.append({'feed': 'let c%d = ()->{ %s };' % (i, t[1])})
    steps.append({'op': 'inst'})
    for i, t in enumerate(temps):
        if reset_between:
            steps.append({'op': 'reset_calls', 'alt': bool(i % 2)})
        steps.append({'op': 'callv', 'name': 'c%d' % i})
    return {'id': 0, 'limits': limits, 'steps': steps, 'dump': {'max_items': 40}}


def run_limits(temps, limits):
    """-> list of (value, out, ud_after) per template"""
    reset = 'calls' in limits
    job = build_job(temps, limits, reset)
    rep = run_job(job, timeout=20.0)
    if 'fatal' in rep:
        raise Machinery('C08 job died: %r limits=%r' % (rep, limits))
    rs = rep['replies']
    for i in range(len(temps) + 1):
        if 'ok' not in rs[i]['v']:
            raise Machinery('C08 corpus does not compile: %r' % (rs[i]['v'],))
    if 'ok' not in rs[len(temps) + 1]['v']:
        raise Machinery('C08 corpus does not instantiate: %r' % (rs[len(temps) + 1],))
    ops = rs[len(temps) + 2:]
    out = []
    j = 0
    for i in range(len(temps)):
        if reset:
            j += 1
        r = ops[j]; j += 1
        out.append((decode(r['v']), r['c'].get('out', ''), r['c'].get('ud')))
    return out, job


def _sweep(args):
    ks, kind, L = args
    temps = templates(ks)
    if kind == 'all':
        limits = {'depth': L, 'recursion': L, 'calls': L, 'search': L}
    else:
        limits = {kind: L}
    outs, job = run_limits(temps, limits)
    return [(repr(v), o, ud, isinstance(v, Viol) and v.kind, isinstance(v, (Panic, Fatal, HostErr, CErr))) for v, o, ud in outs], job


KIND_VIOL = {'depth': 'MaximumStackDepth', 'calls': 'MaximumUDCall', 'recursion': 'MaximumRecursion', 'search': 'MaximumSearch'}


def expected_viols(t, kind, L):
    """set of violation kinds that are allowed at limit value L (empty set = must succeed); exact templates only"""
    name, body, D, N, R, S, exact = t
    exp = set()
    ks = KIND_VIOL.keys() if kind == 'all' else [kind]
    for k in ks:
        if k == 'depth' and D >= L: exp.add(KIND_VIOL[k])
        if k == 'calls' and N >= L: exp.add(KIND_VIOL[k])
        if k == 'recursion' and R > L: exp.add(KIND_VIOL[k])
        if k == 'search' and S > L: exp.add(KIND_VIOL[k])
    return exp


# ----------------------------------------------------------------------------- host-call histories (E2)
HIST_PRELUDE = PRELUDE + '''
fn fa()->int{ down(1) }
fn fb()->int{ 7 }
fn fe()->int{ error("boom") }
'''
EVENTS = {'A': ('call', 'fa', 3), 'B': ('call', 'fb', 1), 'E': ('call', 'fe', 1), 'R': ('reset', False, 0), 'S': ('reset', True, 0)}


def model_history(hist, L):
    c = 0
    out = []
    for e in hist:
        kind, arg, cost = EVENTS[e]
        if kind == 'reset':
            c = 0
            out.append(('ok', c))
        else:
            if c + cost >= L:
                c = max(c + 1, L) if c >= L else L
                out.append(('viol', c))
            else:
                c += cost
                out.append(('err' if e == 'E' else 'val', c))
    return out


def _hist_chunk(args):
    hists, L = args
    steps = [{'feed': HIST_PRELUDE}]
    for h in hists:
        steps.append({'op': 'inst'})
        for e in h:
            kind, arg, cost = EVENTS[e]
            if kind == 'reset':
                steps.append({'op': 'reset_calls', 'alt': arg})
            else:
                steps.append({'op': 'call', 'name': arg})
    job = {'id': 0, 'limits': {'calls': L}, 'steps': steps}
    rep = run_job(job, timeout=20.0)
    if 'fatal' in rep:
        raise Machinery('C08 history job died: %r' % rep)
    rs = rep['replies'][1:]
    res = []
    j = 0
    for h in hists:
        j += 1  # inst
        obs = []
        for e in h:
            r = rs[j]; j += 1
            v = decode(r['v'])
            cls = 'viol' if isinstance(v, Viol) else ('err' if isinstance(v, Err) else ('ok' if v is True else 'val'))
            if isinstance(v, (Panic, Fatal, HostErr)):
                cls = 'crash'
            obs.append((cls, r['c'].get('ud')))
        res.append(obs)
    return res


def run(tier):
    rep = Report(PROP, tier, 'model_checking',
                 'corpus of programs with closed-form (depth D, calls N, tail iterations R, search length S) x every limit value '
                 'L in 1..need+2 for each limit separately and all four combined; plus all host-call histories (run/run/erroring run/'
                 'reset/reset) up to a length on one runtime for every L, against a counter model; non-trivial = distinct '
                 '(program, limit kind, L) and distinct histories')
    ks = (1, 2, 3, 5) if tier == 'quick' else tuple(range(1, 13))
    temps = templates(ks)
    rep.bounds = {'k': list(ks), 'programs': len(temps)}
    # reference run without limits, and a run with a huge call limit to read the call counter
    base, base_job = run_limits(temps, {})
    counted, _ = run_limits(temps, {'calls': BIG})
    for t, (v, o, ud), (v2, o2, ud2) in zip(temps, base, counted):
        rep.evaluations += 2
        name, body, D, N, R, S, exact = t
        if isinstance(v, (Viol, Panic, Fatal, CErr, HostErr)):
            rep.fail(Failure(PROP, 'C08|%s|unlimited|%s' % (name, type(v).__name__), {'program': body}, 'a value', v, base_job))
        if not veq(v, v2) or o != o2:
            rep.fail(Failure(PROP, 'C08|%s|calls=BIG|not-transparent' % name, {'program': body}, v, v2, base_job))
        if exact and ud2 != N:
            rep.fail(Failure(PROP, 'C08|%s|call-count|wrong-count' % name, {'program': body, 'limits': {'calls': BIG}}, 'ud_calls == %d' % N, 'ud_calls == %r' % ud2, base_job))
        if not exact and (ud2 is None or ud2 < N):
            rep.fail(Failure(PROP, 'C08|%s|call-count|library-call-not-counted' % name, {'program': body}, 'ud_calls >= %d' % N, 'ud_calls == %r' % ud2, base_job))
    need = max(max(t[2], t[3], t[4], t[5]) for t in temps)
    maxN = max([c[2] or 0 for c in counted])
    Ls = list(range(1, max(need, maxN) + 3))
    work = [(ks, kind, L) for kind in ('depth', 'calls', 'recursion', 'search', 'all') for L in Ls]
    rep.bounds['L'] = [Ls[0], Ls[-1]]
    first_ok = {}
    for (ks_, kind, L), (res, job) in zip(work, pmap(_sweep, work)):
        rep.states += 1
        for t, (vr, o, ud, vk, crash), (bv, bo, bud), (cv, co, cud) in zip(temps, res, base, counted):
            name, body, D, N, R, S, exact = t
            rep.evaluations += 1
            rep.transitions += 1
            rep.nontrivial_count += 1
            rep.outcome(('violation:' + vk) if vk else ('crash' if crash else 'ok'))
            case = {'program': body, 'limits': job['limits']}
            sig = 'C08|%s|%s=%d' % (name, kind, L)
            if crash:
                rep.fail(Failure(PROP, sig + '|crash', case, 'value or violation', vr, job)); continue
            if exact:
                exp = expected_viols(t, kind, L)
                if vk:
                    if vk not in exp:
                        rep.fail(Failure(PROP, sig + '|spurious-violation:' + vk, case, 'no violation (D=%d N=%d R=%d S=%d)' % (D, N, R, S) if not exp else sorted(exp), vr, job))
                elif exp:
                    rep.fail(Failure(PROP, sig + '|missing-violation', case, sorted(exp), vr, job))
                elif vr != repr(bv) or o != bo:
                    rep.fail(Failure(PROP, sig + '|not-transparent', case, '%r out=%r' % (bv, bo), '%s out=%r' % (vr, o), job))
            else:
                # library code written in the language: its exact counts are an implementation detail.  Checked:
                # (i) the call limit trips exactly at the measured call count, (ii) a violation is of a configured kind,
                # (iii) per kind the outcomes are monotone in L (fail..fail pass..pass), (iv) a passing run is transparent
                allowed = set(KIND_VIOL.values()) if kind == 'all' else {KIND_VIOL[kind]}
                if vk and vk not in allowed:
                    rep.fail(Failure(PROP, sig + '|wrong-violation:' + vk, case, sorted(allowed), vr, job))
                if kind == 'calls':
                    if bool(vk) != (cud is not None and cud >= L):
                        rep.fail(Failure(PROP, sig + '|call-threshold', case, 'violation iff measured calls %r >= L' % cud, vr, job))
                if kind == 'search' and S > 0 and bool(vk) != (S > L):
                    rep.fail(Failure(PROP, sig + ('|missing-violation' if not vk else '|spurious-violation:' + vk), case,
                                     'MaximumSearch iff more than L elements are examined (%d are)' % S, vr, job))
                if kind == 'depth' and not vk and D >= L:
                    rep.fail(Failure(PROP, sig + '|missing-violation', case, 'MaximumStackDepth (depth >= %d)' % D, vr, job))
                key = (name, kind)
                if not vk:
                    first_ok.setdefault(key, L)
                    if vr != repr(bv) or o != bo:
                        rep.fail(Failure(PROP, sig + '|not-transparent', case, '%r out=%r' % (bv, bo), '%s out=%r' % (vr, o), job))
                elif key in first_ok and kind != 'all':
                    rep.fail(Failure(PROP, sig + '|non-monotone', case, 'no violation above L=%d' % first_ok[key], vr, job))
    # histories
    depth = 4 if tier == 'quick' else 6
    hists = []
    for n in range(1, depth + 1):
        hists += [''.join(h) for h in itertools.product('ABERS', repeat=n)]
    HL = list(range(1, 9))
    hwork = []
    for L in HL:
        for i in range(0, len(hists), 250):
            hwork.append((hists[i:i + 250], L))
    rep.bounds['history_depth'] = depth
    rep.bounds['histories'] = len(hists)
    for (hs, L), res in zip(hwork, pmap(_hist_chunk, hwork)):
        for h, obs in zip(hs, res):
            rep.evaluations += 1
            rep.traces += 1
            rep.transitions += len(h)
            rep.nontrivial_count += 1
            want = model_history(h, L)
            if [tuple(x) for x in obs] != want:
                rep.fail(Failure(PROP, 'C08|history|%s|calls=%d|wrong-trace' % (h, L), {'history': h, 'calls': L}, want, obs, None))
    rep.sample({'program': temps[0][1], 'D,N,R,S': temps[0][2:6]})
    rep.sample({'program': temps[7][1], 'D,N,R,S': temps[7][2:6]})
    rep.sample({'history': 'ABRA', 'calls_limit': 4, 'expected': model_history('ABRA', 4)})
    rep.assumptions = ['closed-form counts are derived by hand from the book rules for each template (one frame / one call per user '
                       'function activation, tail self-calls reuse the frame and are not calls)',
                       'library functions written in the language are checked for coverage (>= lower bound) and threshold consistency only']
    return rep.finish()


def replay(rec):
    job = rec.get('job')
    if not job:
        h, L = rec['case']['history'], rec['case']['calls']
        obs = _hist_chunk(([h], L))[0]
        print('history %s calls=%d expected %r observed %r' % (h, L, model_history(h, L), obs))
        return 0
    from ..table import replay_table
    return replay_table(rec)
