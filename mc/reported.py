"""Programs reported to violate a property on some earlier tree (by seeding / hunting agents or by hand), kept as a fixed corpus:
each is run by its property's check on every run.  expect: 'main-true' (compiles, instantiates, main() returns true),
'no-crash' (rejected, or runs to a value / error / violation without a panic, abort or hang), 'rejected' (a compilation error)."""
import json, os
from .core import run_job, decode, Failure, Panic, Fatal, HostErr, Viol, Err, norm_loc, VERIF


def load(prop):
    p = os.path.join(VERIF, 'reported', 'index.json')
    if not os.path.exists(p):
        return []
    return [c for c in json.load(open(p))['cases'] if c['property'] == prop]


def run_case(c):
    src = open(os.path.join(VERIF, 'reported', c['file'])).read()
    has_main = 'fn main(' in src
    steps = [{'feed': src}, {'op': 'inst'}] + ([{'op': 'call', 'name': 'main'}] if has_main and c['expect'] == 'main-true' else [])
    job = {'id': 0, 'limits': c.get('limits') or {}, 'perms': c.get('perms') or {}, 'steps': steps}
    if c.get('stack_mb'):
        # a dedicated runner whose evaluation threads have the given stack size (the pool's have 512 MB)
        from .core import Runner
        old = os.environ.get('XR_STACK_MB')
        os.environ['XR_STACK_MB'] = str(c['stack_mb'])
        try:
            r = Runner()
            rep = r.run(job, timeout=60.0)
            r.stop()
        finally:
            if old is None:
                os.environ.pop('XR_STACK_MB', None)
            else:
                os.environ['XR_STACK_MB'] = old
    else:
        rep = run_job(job, timeout=30.0)
    if 'fatal' in rep:
        return 'fatal:' + str(rep['fatal']), job
    rs = [x for x in rep['replies'] if 'v' in x]
    f = rs[0]['v']
    if 'cerr' in f:
        return ('ok' if c['expect'] in ('rejected', 'no-crash') else 'rejected:' + f['cerr'].get('class', '')), job
    if 'panic' in f:
        return 'compile-panic@' + norm_loc(f['panic'].get('loc', '')), job
    if c['expect'] == 'rejected':
        return 'accepted', job
    inst = decode(rs[1]['v'])
    if isinstance(inst, Panic):
        return 'panic@' + norm_loc(inst.loc), job
    if isinstance(inst, (Fatal, HostErr)):
        return 'fatal:' + repr(inst)[:60], job
    if c['expect'] == 'no-crash':
        return 'ok', job
    if inst is not True:
        return 'instantiation:' + repr(inst)[:80], job
    v = decode(rs[2]['v'])
    if v is True:
        if c.get('expect_out') is not None:
            out = ''.join(x.get('c', {}).get('out', '') for x in rep['replies'])
            if out != c['expect_out']:
                return 'wrong-output', job
        return 'ok', job
    if isinstance(v, Panic):
        return 'panic@' + norm_loc(v.loc), job
    if isinstance(v, Viol):
        return 'violation:' + v.kind, job
    if isinstance(v, Err):
        return 'error', job
    return 'main-not-true', job


def run_reported(rep):
    cases = load(rep.prop)
    if not cases:
        return
    rep.bounds['reported_programs'] = len(cases)
    for c in cases:
        verdict, job = run_case(c)
        rep.evaluations += 1
        rep.outcome('reported-' + verdict.split('@')[0].split(':')[0])
        rep.nontrivial.add('reported|' + c['file'])
        if verdict != 'ok':
            rep.fail(Failure(rep.prop, '%s|reported|%s|%s' % (rep.prop, c['file'], verdict), {'file': c['file'], 'limits': c.get('limits'), 'note': c.get('note', '')},
                             {'main-true': 'main() returns true', 'no-crash': 'rejected, or no panic / abort / hang', 'rejected': 'a compilation error'}[c['expect']], verdict, job))
