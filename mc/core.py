"""Core of the explorer: runner pool, unit execution, value decoding, failure bookkeeping,
known-findings matching, replay files, evidence.  Python 3.11 stdlib only."""
import json, os, sys, time, subprocess, select, signal, struct, hashlib, resource, traceback
import multiprocessing as mp
sys.set_int_max_str_digits(0)

VERIF = os.path.dirname(os.path.dirname(os.path.abspath(__file__)))
RUNNER_DIR = os.path.join(VERIF, 'runner')
RUNNER_BIN = os.path.join(VERIF, 'target', 'release', 'xr-run')
NCPU = min(16, os.cpu_count() or 1)


class Machinery(Exception):
    """engine failure — never a verdict (exit 2)"""


# ----------------------------------------------------------------------------- build
def build():
    env = dict(os.environ, CARGO_NET_OFFLINE='true')
    p = subprocess.run(['cargo', 'build', '--release', '--offline'], cwd=RUNNER_DIR, env=env,
                       stdout=subprocess.PIPE, stderr=subprocess.STDOUT, text=True)
    if p.returncode != 0:
        sys.stderr.write(p.stdout[-6000:])
        raise Machinery('runner build failed')


# ----------------------------------------------------------------------------- runner
def _limit_child():
    # address-space cap for the child: a subject that blows up memory must abort itself, not the box
    gb = int(os.environ.get('XR_AS_GB', '3'))
    resource.setrlimit(resource.RLIMIT_AS, (gb << 30, gb << 30))
    resource.setrlimit(resource.RLIMIT_CORE, (0, 0))


class Runner:
    def __init__(self):
        self.p = None

    def start(self):
        env = dict(os.environ, XR_STACK_MB=os.environ.get('XR_STACK_MB', '512'))
        self.p = subprocess.Popen([RUNNER_BIN], stdin=subprocess.PIPE, stdout=subprocess.PIPE,
                                  stderr=subprocess.DEVNULL, preexec_fn=_limit_child, env=env)
        self.buf = b''

    def stop(self):
        if self.p is not None:
            try:
                self.p.kill()
                self.p.wait()
            except Exception:
                pass
            self.p = None

    def run(self, job, timeout=15.0):
        """returns the reply dict, or {'fatal': 'abort(sig)'|'hang'}"""
        if self.p is None or self.p.poll() is not None:
            self.stop()
            self.start()
        data = (json.dumps(job) + '\n').encode()
        try:
            self.p.stdin.write(data)
            self.p.stdin.flush()
        except BrokenPipeError:
            self.stop()
            return {'fatal': 'abort(pipe)'}
        # the timeout applies to each step (the runner reports the step in flight), not to the whole job
        deadline = time.time() + timeout
        fd = self.p.stdout.fileno()
        at = None
        while True:
            nl = self.buf.find(b'\n')
            if nl >= 0:
                line = self.buf[:nl]
                self.buf = self.buf[nl + 1:]
                if line.startswith(b'#'):
                    at = int(line[1:])
                    deadline = time.time() + timeout
                    continue
                try:
                    return json.loads(line)
                except Exception as e:
                    raise Machinery('bad reply from runner: %r' % line[:200])
            remaining = deadline - time.time()
            if remaining <= 0:
                self.stop()
                return {'fatal': 'hang', 'at': at}
            r, _, _ = select.select([fd], [], [], min(remaining, 1.0))
            if r:
                chunk = os.read(fd, 1 << 20)
                if not chunk:
                    rc = self.p.wait()
                    self.stop()
                    return {'fatal': 'abort(%s)' % (-rc if rc < 0 else 'exit%d' % rc), 'at': at}
                self.buf += chunk


_RUNNER = None


def runner():
    global _RUNNER
    if _RUNNER is None:
        _RUNNER = Runner()
    return _RUNNER


def run_job(job, timeout=15.0):
    return runner().run(job, timeout)


# ----------------------------------------------------------------------------- values
class Err:
    def __init__(self, msg): self.msg = msg
    def __repr__(self): return 'Err(%r)' % (self.msg,)
    def __eq__(self, o): return isinstance(o, Err)  # messages are unspecified
    def __hash__(self): return 1


class Viol:
    def __init__(self, kind): self.kind = kind
    def __repr__(self): return 'Viol(%s)' % self.kind
    def __eq__(self, o): return isinstance(o, Viol) and o.kind == self.kind
    def __hash__(self): return hash(self.kind)


class Panic:
    def __init__(self, msg, loc=''): self.msg, self.loc = msg, loc
    def __repr__(self): return 'Panic(%r @ %s)' % (self.msg[:160], self.loc)
    def __eq__(self, o): return isinstance(o, Panic)
    def __hash__(self): return 2


class Fatal:
    """the runner process died (abort / stack overflow / OOM) or hung on this case"""
    def __init__(self, kind): self.kind = kind
    def __repr__(self): return 'Fatal(%s)' % self.kind
    def __eq__(self, o): return isinstance(o, Fatal)
    def __hash__(self): return 3


class CErr:
    def __init__(self, cls, text=''): self.cls, self.text = cls, text
    def __repr__(self): return 'CErr(%s: %s)' % (self.cls, self.text[:200])
    def __eq__(self, o): return isinstance(o, CErr)
    def __hash__(self): return 4


class HostErr:
    def __init__(self, msg): self.msg = msg
    def __repr__(self): return 'HostErr(%s)' % self.msg
    def __eq__(self, o): return isinstance(o, HostErr)
    def __hash__(self): return 5


class Opt:
    def __init__(self, v=None, has=None):
        self.v = v
        self.has = (v is not None) if has is None else has
    def __repr__(self): return 'some(%r)' % (self.v,) if self.has else 'none'
    def __eq__(self, o): return isinstance(o, Opt) and o.has == self.has and veq(o.v, self.v)
    def __hash__(self): return 6


class Un:
    def __init__(self, idx, v): self.idx, self.v = idx, v
    def __repr__(self): return 'Un(%d,%r)' % (self.idx, self.v)
    def __eq__(self, o): return isinstance(o, Un) and o.idx == self.idx and veq(o.v, self.v)
    def __hash__(self): return 7


class Seq:
    """forced prefix of a sequence; ln = None for infinite"""
    def __init__(self, items, ln='auto', more=False, repr_=None):
        self.items = list(items)
        self.ln = len(self.items) if ln == 'auto' else ln
        self.more = more
        self.repr = repr_
    def __repr__(self):
        return 'Seq(%r%s%s)' % (self.items, '' if self.ln == len(self.items) else ', len=%r' % self.ln,
                                 ', more' if self.more else '')
    def __eq__(self, o):
        return isinstance(o, Seq) and o.ln == self.ln and veq(o.items, self.items)
    def __hash__(self): return 8


class Gen:
    def __init__(self, items, more=False, repr_=None):
        self.items, self.more, self.repr = list(items), more, repr_
    def __repr__(self): return 'Gen(%r%s)' % (self.items, ', more' if self.more else '')
    def __eq__(self, o): return isinstance(o, Gen) and o.more == self.more and veq(o.items, self.items)
    def __hash__(self): return 9


class Stk:
    def __init__(self, items): self.items = list(items)
    def __repr__(self): return 'Stk(%r)' % (self.items,)
    def __eq__(self, o): return isinstance(o, Stk) and veq(o.items, self.items)
    def __hash__(self): return 10


class Map:
    def __init__(self, entries, ln=None, buckets=None):
        self.entries = [tuple(e) for e in entries]
        self.ln = len(self.entries) if ln is None else ln
        self.buckets = buckets
    def __repr__(self): return 'Map(%r, len=%r)' % (self.entries, self.ln)
    def __eq__(self, o):
        return isinstance(o, Map) and o.ln == self.ln and veq(sorted_vals(o.entries), sorted_vals(self.entries))
    def __hash__(self): return 11


class XSet:
    def __init__(self, items, ln=None, buckets=None):
        self.items = list(items)
        self.ln = len(self.items) if ln is None else ln
        self.buckets = buckets
    def __repr__(self): return 'XSet(%r, len=%r)' % (self.items, self.ln)
    def __eq__(self, o):
        return isinstance(o, XSet) and o.ln == self.ln and veq(sorted_vals(o.items), sorted_vals(self.items))
    def __hash__(self): return 12


class Fn:
    def __init__(self, kind='user'): self.kind = kind
    def __repr__(self): return 'Fn(%s)' % self.kind
    def __eq__(self, o): return isinstance(o, Fn)
    def __hash__(self): return 13


class Native:
    def __init__(self, name): self.name = name
    def __repr__(self): return 'Native(%s)' % self.name[:60]
    def __eq__(self, o): return isinstance(o, Native)
    def __hash__(self): return 14


def fbits(x):
    return struct.unpack('<Q', struct.pack('<d', x))[0]


def sort_key(v):
    return repr(v)


def sorted_vals(vs):
    return sorted(vs, key=sort_key)


def veq(a, b):
    """structural equality; floats by bit pattern; bool is not int"""
    if isinstance(a, bool) or isinstance(b, bool):
        return isinstance(a, bool) and isinstance(b, bool) and a == b
    if isinstance(a, float) or isinstance(b, float):
        return isinstance(a, float) and isinstance(b, float) and fbits(a) == fbits(b)
    if isinstance(a, (list, tuple)):
        return type(a) == type(b) and len(a) == len(b) and all(veq(x, y) for x, y in zip(a, b))
    if type(a) != type(b):
        return False
    return a == b


def norm_loc(loc):
    """panic locations without machine-specific prefixes: repo-relative, or crate-relative for dependencies"""
    if loc.startswith('/repo/'):
        return loc[len('/repo/'):]
    if '/registry/src/' in loc:
        return '/'.join(loc.split('/registry/src/')[1].split('/')[1:])
    return loc


def decode(d):
    """runner dump (JSON) -> python value"""
    if not isinstance(d, dict):
        raise Machinery('bad dump %r' % (d,))
    if 'i' in d: return int(d['i'])
    if 'f' in d: return struct.unpack('<d', struct.pack('<Q', int(d['f'], 16)))[0]
    if 's' in d: return d['s']
    if 'b' in d: return bool(d['b'])
    if 't' in d: return tuple(decode(x) for x in d['t'])
    if 'u' in d: return Un(d['u'][0], decode(d['u'][1]))
    if 'o' in d: return Opt(None, False) if d['o'] is None else Opt(decode(d['o']), True)
    if 'q' in d: return Seq([decode(x) for x in d['q']], d.get('len'), d.get('more', False), d.get('repr'))
    if 'g' in d: return Gen([decode(x) for x in d['g']], d.get('more', False), d.get('repr'))
    if 'k' in d: return Stk([decode(x) for x in d['k']])
    if 'm' in d: return Map([(decode(k), decode(v)) for k, v in d['m']], d.get('len'), d.get('buckets'))
    if 'e' in d: return XSet([decode(x) for x in d['e']], d.get('len'), d.get('buckets'))
    if 'fn' in d: return Fn(d['fn'])
    if 'n' in d: return Native(d['n'])
    if 'err' in d: return Err(d['err'])
    if 'viol' in d: return Viol(d['viol'])
    if 'panic' in d: return Panic(d['panic'].get('msg', ''), norm_loc(d['panic'].get('loc', '')))
    if 'cerr' in d: return CErr(d['cerr'].get('class', ''), d['cerr'].get('text', ''))
    if 'host_err' in d: return HostErr(d['host_err'])
    if 'skip' in d: return HostErr('skip:' + d['skip'])
    if 'deep' in d: return Native('<deep>')
    if 'ok' in d: return True
    raise Machinery('bad dump %r' % (d,))


def walk(v):
    """all nodes of a decoded value"""
    yield v
    if isinstance(v, (tuple, list)):
        for x in v:
            yield from walk(x)
    elif isinstance(v, (Seq, Gen, Stk, XSet)):
        for x in v.items:
            yield from walk(x)
    elif isinstance(v, Map):
        for k, x in v.entries:
            yield from walk(k)
            yield from walk(x)
    elif isinstance(v, Opt) and v.has:
        yield from walk(v.v)
    elif isinstance(v, Un):
        yield from walk(v.v)


# ----------------------------------------------------------------------------- xray source rendering
def xint(n):
    """source text of an integer value of any magnitude (literals above i128 are not exact: build them)"""
    if n < 0:
        return '(-%s)' % xint(-n)
    if n < (1 << 63):
        return str(n)
    # build from 62-bit limbs: ((a * 2**62 + b) * 2**62 + c)
    limbs = []
    while n:
        limbs.append(n & ((1 << 62) - 1))
        n >>= 62
    s = str(limbs[-1])
    for l in reversed(limbs[:-1]):
        s = '(%s * 4611686018427387904 + %d)' % (s, l)
    return s


def xfloat(x):
    """source text of a finite float, exact (17 significant digits round-trip; grammar has no sign)"""
    import math
    if x != x or x in (float('inf'), float('-inf')):
        raise ValueError(x)
    if math.copysign(1.0, x) < 0:
        if x == 0:
            return '(0.0 * -1.0)'
        return '(-%s)' % xfloat(-x)
    r = repr(x)
    if 'e' in r or 'E' in r:
        mant, exp = r.lower().split('e')
        if '.' not in mant:
            mant += '.0'
        e = int(exp)
        return '%se%s%d' % (mant, '-' if e < 0 else '', abs(e))
    if '.' not in r:
        r += '.0'
    return r


def xstr(s):
    """source text of a string value: escape-free form using a # fence where possible"""
    out = ['"']
    for ch in s:
        o = ord(ch)
        if ch == '\\': out.append('\\\\')
        elif ch == '"': out.append('\\"')
        elif ch == '\n': out.append('\\n')
        elif ch == '\t': out.append('\\t')
        elif ch == '\r': out.append('\\r')
        elif o < 0x20 or o == 0x7f: out.append('\\u{%x}' % o)
        else: out.append(ch)
    out.append('"')
    return ''.join(out)


# ----------------------------------------------------------------------------- unit execution
class Outcome:
    __slots__ = ('v', 'out', 'c', 'ud0', 'bytes0', 'raw')

    def __init__(self, v, out='', c=None, ud0=None, bytes0=None, raw=None):
        self.v, self.out, self.c, self.ud0, self.bytes0, self.raw = v, out, c or {}, ud0, bytes0, raw

    def __repr__(self):
        return 'Outcome(%r, out=%r)' % (self.v, self.out)


def mk_unit_job(prelude, units, limits=None, perms=None, dump=None, now=None, per_unit_inst=False, reset_calls=False):
    """units: list of (name, src) where src declares `name` as a zero-argument function value
    (let name = ()->{...};) or a zero-argument fn; mode 'callv'/'call'/'get' chosen by src prefix."""
    steps = [{'feed': p} for p in prelude]
    for name, src in units:
        steps.append({'feed': src})
    steps.append({'op': 'inst'})
    for name, src in units:
        if reset_calls:
            steps.append({'op': 'reset_calls'})
        steps.append({'op': unit_mode(src), 'name': name})
    job = {'id': 0, 'limits': limits or {}, 'steps': steps}
    if perms is not None: job['perms'] = perms
    if dump is not None: job['dump'] = dump
    if now is not None: job['now'] = now
    return job


def unit_mode(src):
    s = src.lstrip()
    if s.startswith('fn '): return 'call'
    if s.startswith('let ') and '=' in s:
        rhs = s.split('=', 1)[1].lstrip()
        if rhs.startswith('()->') or rhs.startswith('() ->'):
            return 'callv'
    return 'get'


def run_units(units, prelude=(), limits=None, perms=None, dump=None, now=None, timeout=15.0, _depth=0, reset_calls=False):
    """Execute independent units in one job; isolate crashes by bisection.  Returns one Outcome per unit.
    A unit that fails to compile yields CErr; a compiler panic or a process death yields Panic/Fatal for
    that unit and the remaining units are re-run in a fresh job."""
    units = list(units)
    if not units:
        return []
    prelude = list(prelude)
    job = mk_unit_job(prelude, units, limits, perms, dump, now, reset_calls=reset_calls)
    rep = run_job(job, timeout)
    n = len(units)
    if 'fatal' in rep:
        if n == 1:
            # confirm once on a fresh runner
            rep2 = run_job(job, timeout)
            if 'fatal' in rep2:
                return [Outcome(Fatal(rep2['fatal']), raw=job)]
            rep = rep2
        else:
            at = rep.get('at')
            np0 = len(prelude)
            culprit = None
            if at is not None:
                if np0 <= at < np0 + n:
                    culprit = at - np0
                elif at > np0 + n:
                    culprit = (at - (np0 + n + 1)) // (2 if reset_calls else 1)
            if culprit is not None and 0 <= culprit < n:
                # the step in flight is known: judge that unit alone, run the others without it
                first = run_units(units[:culprit], prelude, limits, perms, dump, now, timeout, _depth + 1, reset_calls)
                mid = run_units(units[culprit:culprit + 1], prelude, limits, perms, dump, now, timeout, _depth + 1, reset_calls)
                rest = run_units(units[culprit + 1:], prelude, limits, perms, dump, now, timeout, _depth + 1, reset_calls)
                return first + mid + rest
            h = n // 2
            return (run_units(units[:h], prelude, limits, perms, dump, now, timeout, _depth + 1, reset_calls) +
                    run_units(units[h:], prelude, limits, perms, dump, now, timeout, _depth + 1, reset_calls))
    replies = rep['replies']
    np_ = len(prelude)
    for i in range(np_):
        v = replies[i]['v']
        if 'ok' not in v:
            raise Machinery('prelude feed %d failed: %r' % (i, v))
    feeds = replies[np_:np_ + n]
    # a compiler panic may leave the scope inconsistent: cut the batch there
    for i, f in enumerate(feeds):
        if 'panic' in f['v']:
            first = run_units(units[:i], prelude, limits, perms, dump, now, timeout, _depth + 1, reset_calls)
            mid = [Outcome(decode(f['v']), raw=job)]
            rest = run_units(units[i + 1:], prelude, limits, perms, dump, now, timeout, _depth + 1, reset_calls)
            return first + mid + rest
    inst = replies[np_ + n]
    if 'ok' not in inst['v']:
        # instantiation of the batch failed (violation or panic while evaluating top-level lets)
        if n == 1:
            if 'ok' not in feeds[0]['v']:
                return [Outcome(decode(feeds[0]['v']), raw=job)]
            return [Outcome(decode(inst['v']), inst['c'].get('out', ''), inst['c'], raw=job)]
        h = n // 2
        return (run_units(units[:h], prelude, limits, perms, dump, now, timeout, _depth + 1, reset_calls) +
                run_units(units[h:], prelude, limits, perms, dump, now, timeout, _depth + 1, reset_calls))
    outs = []
    ops = replies[np_ + n + 1: np_ + n + 1 + n * (2 if reset_calls else 1)]
    if reset_calls:
        ops = ops[1::2]
    for i in range(n):
        f = feeds[i]['v']
        if 'ok' not in f:
            outs.append(Outcome(decode(f), raw=job))
            continue
        r = ops[i]
        outs.append(Outcome(decode(r['v']), r['c'].get('out', ''), r['c'], r.get('ud0'), r.get('bytes0'), raw=None))
    return outs


def unit_job(prelude, name, src, limits=None, perms=None, dump=None, now=None):
    return mk_unit_job(list(prelude), [(name, src)], limits, perms, dump, now)


# ----------------------------------------------------------------------------- parallel map
def _worker_init():
    signal.signal(signal.SIGINT, signal.SIG_IGN)


def _call(args):
    fn, item = args
    try:
        return ('ok', fn(item))
    except Machinery as e:
        return ('mach', str(e))
    except Exception:
        return ('exc', traceback.format_exc())


def pmap(fn, items, workers=None, chunksize=1):
    """ordered parallel map over picklable items; fn must be a module-level function"""
    items = list(items)
    workers = workers or NCPU
    if os.environ.get('MC_SERIAL') or workers == 1 or len(items) <= 1:
        for it in items:
            tag, val = _call((fn, it))
            if tag != 'ok':
                raise Machinery(val)
            yield val
        return
    pool = _get_pool(workers)
    for tag, val in pool.imap(_call, [(fn, it) for it in items], chunksize):
        if tag != 'ok':
            _drop_pool()
            raise Machinery(val)
        yield val


def pmap_stream(fn, iterable, workers=None, window=None):
    """like pmap but consumes `iterable` lazily with a bounded number of items in flight (results in submission order)"""
    import collections
    workers = workers or NCPU
    if os.environ.get('MC_SERIAL') or workers == 1:
        for it in iterable:
            tag, val = _call((fn, it))
            if tag != 'ok':
                raise Machinery(val)
            yield val
        return
    pool = _get_pool(workers)
    window = window or workers * 2
    pending = collections.deque()
    it = iter(iterable)
    done = False
    while True:
        while not done and len(pending) < window:
            try:
                item = next(it)
            except StopIteration:
                done = True
                break
            pending.append(pool.apply_async(_call, ((fn, item),)))
        if not pending:
            return
        tag, val = pending.popleft().get()
        if tag != 'ok':
            _drop_pool()
            raise Machinery(val)
        yield val


_POOL = None


def _get_pool(workers):
    """one persistent worker pool per check run: workers keep their runner process between calls"""
    global _POOL
    if _POOL is None:
        import atexit
        _POOL = mp.get_context('fork').Pool(workers, initializer=_worker_init)
        atexit.register(_drop_pool)
    return _POOL


def _drop_pool():
    global _POOL
    if _POOL is not None:
        try:
            _POOL.terminate()
            _POOL.join()
        except Exception:
            pass
        _POOL = None


def chunks(seq, n):
    seq = list(seq)
    return [seq[i:i + n] for i in range(0, len(seq), n)]


# ----------------------------------------------------------------------------- failures / findings / evidence
class Failure:
    def __init__(self, prop, sig, case, expected, actual, job=None, note=''):
        self.prop, self.sig, self.case = prop, sig, case
        self.expected, self.actual, self.job, self.note = repr(expected), repr(actual), job, note

    def to_json(self):
        return {'property': self.prop, 'sig': self.sig, 'case': self.case, 'expected': self.expected,
                'actual': self.actual, 'job': self.job, 'note': self.note}


def load_findings():
    p = os.path.join(VERIF, 'known_findings.json')
    if not os.path.exists(p):
        return []
    with open(p) as f:
        return json.load(f)['findings']


def match_finding(findings, prop, sig):
    """a known finding suppresses a failure only when it lists exactly this signature"""
    for f in findings:
        if f.get('status') != 'known' or f.get('property') != prop:
            continue
        if sig in f.get('sigs', ()):
            return f
        if f.get('crash_any'):
            # the same input may panic inside the dependency or run into the watchdog depending on machine load: for findings marked
            # crash_any the listed INPUT is what identifies the finding, any crash class of that input belongs to it
            head, _, last = sig.rpartition('|')
            if last.startswith(('panic@', 'fatal:')) and any(x.rpartition('|')[0] == head for x in f.get('sigs', ())):
                return f
    return None


class Report:
    """collects what one check run covered and what it found"""

    def __init__(self, prop, tier, level, rule):
        self.prop, self.tier, self.level, self.rule = prop, tier, level, rule
        self.t0 = time.time()
        self.evaluations = 0
        self.states = 0
        self.transitions = 0
        self.traces = 0
        self.nontrivial = set()
        self.nontrivial_count = 0
        self.samples = []
        self.failures = []
        self.outcomes = {}
        self.bounds = {}
        self.exhaustive = True
        self.caps = []
        self.assumptions = []
        self.extra = {}
        self.seed = int(os.environ.get('VERIF_SEED', '0') or 0)
        import glob
        for p in glob.glob(os.path.join(VERIF, 'replays', '%s-*.json' % prop)):
            os.remove(p)

    def outcome(self, cls, n=1):
        self.outcomes[cls] = self.outcomes.get(cls, 0) + n

    def sample(self, s, cap=6):
        if len(self.samples) < cap:
            self.samples.append(s)

    def fail(self, f):
        self.failures.append(f)

    def finish(self):
        # the fixed corpus of programs once reported to violate this property (mc/reported.py)
        from . import reported
        reported.run_reported(self)
        findings = load_findings()
        by_sig = {}
        for f in self.failures:
            by_sig.setdefault(f.sig, []).append(f)
        known_hit = {}
        violations = []
        for sig, fs in sorted(by_sig.items()):
            kf = match_finding(findings, self.prop, sig)
            if kf is not None:
                known_hit.setdefault(kf['id'], []).append(sig)
            else:
                violations.append((sig, fs))
        for kid, sigs in sorted(known_hit.items()):
            kf = [f for f in findings if f.get('id') == kid][0]
            print('KNOWN-FINDING: property=%s %s: %s (%d failing signature(s) listed)' % (self.prop, kid, kf.get('what', ''), len(sigs)))
        os.makedirs(os.path.join(VERIF, 'replays'), exist_ok=True)
        groups = {}
        for sig, fs in violations:
            parts = sig.split('|')
            g = '|'.join(parts[:2] + parts[-1:])
            groups[g] = groups.get(g, 0) + 1
        if len(violations) > 12:
            print('violation groups (property|operation|discrepancy: count):')
            for g, n in sorted(groups.items(), key=lambda kv: -kv[1])[:80]:
                print('   %-60s %d' % (g, n))
        shown = {}
        for sig, fs in violations:
            f = fs[0]
            h = hashlib.sha1(sig.encode()).hexdigest()[:10]
            path = os.path.join(VERIF, 'replays', '%s-%s.json' % (self.prop, h))
            rec = f.to_json()
            rec['same_signature_cases'] = len(fs)
            with open(path, 'w') as fh:
                json.dump(rec, fh, indent=1, default=repr)
            print('VIOLATION property=%s replay=%s' % (self.prop, path))
            parts = sig.split('|')
            g = '|'.join(parts[:2] + parts[-1:])
            shown[g] = shown.get(g, 0) + 1
            if shown[g] <= 2:
                print('  sig: %s' % sig[:300])
                print('  case: %s' % (json.dumps(f.case, default=repr)[:400]))
                print('  expected: %s' % f.expected[:300])
                print('  actual:   %s' % f.actual[:300])
        wall = time.time() - self.t0
        cov = {
            'evaluations': int(self.evaluations),
            'distinct_nontrivial': int(self.nontrivial_count + len(self.nontrivial)),
            'rule': self.rule,
            'samples': self.samples[:8] or ['(none)'],
            'exhaustive': bool(self.exhaustive and not self.caps),
            'bounds': self.bounds,
            'distinct_outcomes': self.outcomes,
            'caps_hit': self.caps,
            'failing_signatures': len(by_sig),
            'known_findings_hit': {k: len(v) for k, v in known_hit.items()},
        }
        if self.level == 'model_checking':
            cov['states'] = int(max(self.states, 1))
            cov['transitions'] = int(max(self.transitions, 1))
            cov['traces_validated_against_impl'] = int(self.traces)
        cov.update(self.extra)
        ev = {'property_id': self.prop, 'tier': self.tier, 'seed': self.seed, 'level': self.level,
              'coverage': cov, 'assumptions': self.assumptions, 'wall_s': round(wall, 2),
              'violations': len(violations)}
        os.makedirs(os.path.join(VERIF, 'evidence'), exist_ok=True)
        with open(os.path.join(VERIF, 'evidence', '%s.json' % self.prop), 'w') as fh:
            json.dump(ev, fh, indent=1, default=repr)
        print('%s %s: evaluations=%d states=%d transitions=%d nontrivial=%d outcomes=%s failing_sigs=%d known=%d violations=%d wall=%.1fs' % (
            self.prop, self.tier, self.evaluations, self.states, self.transitions, cov['distinct_nontrivial'],
            json.dumps(self.outcomes), len(by_sig), len(known_hit), len(violations), wall))
        return 1 if violations else 0
