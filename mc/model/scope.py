"""Reference model of lexical scoping for C03: a tiny declaration language (int lets, named functions, let-bound lambdas, closures
returned from functions, default parameters) with a persistent-environment evaluator.  A name denotes the nearest binding that
textually precedes its use; a closure keeps the environment of its creation; defaults are evaluated once, at creation.

AST
  decl:  ('let', name, expr) | ('fn', name, params, rtype, decls, ret)
  param: (name, type, default_expr | None)
  expr:  ('lit', n) | ('var', name) | ('sum', [expr]) | ('call', expr, [expr]) | ('lam', params, decls, ret) | ('disp', expr)
         | ('if0', cond_expr, then_expr, else_expr)   -- then when cond == 0
  type:  'int' | ('fn', [type], type)
"""


class Clo:
    __slots__ = ('params', 'dvals', 'decls', 'ret', 'env')

    def __init__(self, params, dvals, decls, ret, env):
        self.params, self.dvals, self.decls, self.ret, self.env = params, dvals, decls, ret, env


class Budget(Exception):
    pass


def lookup(env, name):
    while env is not None:
        if env[0] == name:
            return env[1]
        env = env[2]
    raise KeyError(name)


class Machine:
    def __init__(self, fuel=200000):
        self.out = []
        self.fuel = fuel

    def decls(self, ds, env):
        for d in ds:
            if d[0] == 'let':
                env = (d[1], self.ev(d[2], env), env)
            elif d[0] == 'fn':
                _, name, params, rtype, body, ret = d
                dvals = [self.ev(p[2], env) if p[2] is not None else None for p in params]
                clo = Clo(params, dvals, body, ret, None)
                env = (name, clo, env)
                clo.env = env
            elif d[0] == 'forward':
                pass
            else:
                raise ValueError(d[0])
        return env

    def ev(self, e, env):
        self.fuel -= 1
        if self.fuel < 0:
            raise Budget()
        k = e[0]
        if k == 'lit':
            return e[1]
        if k == 'var':
            return lookup(env, e[1])
        if k == 'sum':
            t = 0
            for x in e[1]:
                t += self.ev(x, env)
            return t
        if k == 'disp':
            v = self.ev(e[1], env)
            self.out.append(str(v))
            return v
        if k == 'if0':
            return self.ev(e[2], env) if self.ev(e[1], env) == 0 else self.ev(e[3], env)
        if k == 'lam':
            _, params, body, ret = e
            dvals = [self.ev(p[2], env) if p[2] is not None else None for p in params]
            return Clo(params, dvals, body, ret, env)
        if k == 'call':
            f = self.ev(e[1], env)
            args = [self.ev(a, env) for a in e[2]]
            return self.apply(f, args)
        raise ValueError(k)

    def apply(self, f, args):
        env = f.env
        for i, p in enumerate(f.params):
            v = args[i] if i < len(args) else f.dvals[i]
            env = (p[0], v, env)
        env = self.decls(f.decls, env)
        return self.ev(f.ret, env)


def rtype(t):
    if t == 'int':
        return 'int'
    return '(%s)->(%s)' % (', '.join(rtype(a) for a in t[1]), rtype(t[2]))


def rparams(params):
    return ', '.join('%s: %s%s' % (n, rtype(t), '' if d is None else ' ?= ' + rexpr(d)) for n, t, d in params)


def rexpr(e):
    k = e[0]
    if k == 'lit':
        return str(e[1]) if e[1] >= 0 else '(%d)' % e[1]
    if k == 'var':
        return e[1]
    if k == 'sum':
        return '(' + ' + '.join(rexpr(x) for x in e[1]) + ')' if e[1] else '0'
    if k == 'disp':
        return 'display(%s)' % rexpr(e[1])
    if k == 'if0':
        return 'if(%s == 0, %s, %s)' % (rexpr(e[1]), rexpr(e[2]), rexpr(e[3]))
    if k == 'lam':
        return '(%s)->{ %s%s }' % (rparams(e[1]), rdecls(e[2]), rexpr(e[3]))
    if k == 'call':
        f = rexpr(e[1])
        if e[1][0] == 'lam':
            f = '(' + f + ')'
        return '%s(%s)' % (f, ', '.join(rexpr(a) for a in e[2]))
    raise ValueError(k)


def rdecls(ds):
    out = []
    for d in ds:
        if d[0] == 'let':
            out.append('let %s = %s; ' % (d[1], rexpr(d[2])))
        elif d[0] == 'fn':
            out.append('fn %s(%s)->%s{ %s%s } ' % (d[1], rparams(d[2]), rtype(d[3]), rdecls(d[4]), rexpr(d[5])))
        elif d[0] == 'forward':
            out.append('forward fn %s(%s)->%s; ' % (d[1], ', '.join('%s: %s' % (n, rtype(t)) for n, t, _ in d[2]), rtype(d[3])))
    return ''.join(out)


def run_ref(decls, observe='r'):
    m = Machine()
    env = m.decls(decls, None)
    return lookup(env, observe), ''.join(s + '\n' for s in m.out)
