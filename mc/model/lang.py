"""Reference semantics of the core language, written from the book: a typed term algebra with a renderer to xray source and
an environment-passing evaluator (no cells, no captures by index, no tail calls — names are looked up in Python dict chains).
Terms are plain tuples: (kind, type, ...).  Values: int, float, str, bool, tuple (tuples and structs), Seq-like python lists,
Opt, Un, ErrV."""
import math
from ..core import xint, xfloat, xstr, Opt, Un, Seq


class ErrV:
    def __init__(self, msg): self.msg = msg
    def __repr__(self): return 'ErrV(%r)' % self.msg
    def __eq__(self, o): return isinstance(o, ErrV)
    def __hash__(self): return 99


class Closure:
    def __init__(self, params, defaults, body, env, name=None):
        self.params, self.defaults, self.body, self.env, self.name = params, defaults, body, env, name


class Ctx:
    """evaluation context: output lines, counters, ambiguity flag"""
    def __init__(self):
        self.out = []
        self.calls = 0
        self.depth = 0
        self.max_depth = 0
        self.ambiguous = False


# ----------------------------------------------------------------------------- types (strings are enough here)
INT, FLOAT, STR, BOOL = 'int', 'float', 'str', 'bool'


def opt(t): return 'Optional<%s>' % t
def seq(t): return 'Sequence<%s>' % t
def tup(*ts): return '(%s)' % ', '.join(ts)


# ----------------------------------------------------------------------------- constructors
def lit(v):
    if isinstance(v, bool): return ('lit', BOOL, v)
    if isinstance(v, int): return ('lit', INT, v)
    if isinstance(v, float): return ('lit', FLOAT, v)
    return ('lit', STR, v)


def var(name, t): return ('var', t, name)
def bin_(op, t, a, b): return ('bin', t, op, a, b)
def un(op, t, a): return ('un', t, op, a)
def if_(c, a, b): return ('if', a[1], c, a, b)
def call(f, t, *args): return ('call', t, f, list(args))
def method(f, t, recv, *args): return ('method', t, f, recv, list(args))
def tuple_(*xs): return ('tuple', tup(*[x[1] for x in xs]), list(xs))
def item(x, i, t): return ('item', t, x, i)
def array(t, *xs): return ('array', seq(t), list(xs))
def index(x, i, t): return ('index', t, x, i)
def struct(name, fields, *xs): return ('struct', name, fields, list(xs))
def member(x, field, idx, t): return ('member', t, x, field, idx)
def variant(uname, vname, idx, x): return ('variant', uname, vname, idx, x)
def optmember(x, vname, idx, t): return ('optmember', opt(t), x, vname, idx)
def valmember(x, vname, idx, t): return ('valmember', t, x, vname, idx)
def display(x, label=None): return ('display', x[1], x, label)
def err(msg, t): return ('err', t, msg)
def lam(params, body): return ('lam', None, params, body)          # params: [(name, type, default|None)]
def block(lets, body): return ('block', body[1], lets, body)        # lets: [(name, term)]
def apply_(f, t, *args): return ('apply', t, f, list(args))         # call of a function-valued term


OPSYM = {'add': '+', 'sub': '-', 'mul': '*', 'div': '/', 'mod': '%', 'pow': '**', 'and': '&&', 'or': '||', 'lt': '<', 'gt': '>', 'le': '<=', 'ge': '>=',
         'eq': '==', 'ne': '!=', 'bit_and': '&', 'bit_or': '|', 'bit_xor': '^'}
UNSYM = {'neg': '-', 'not': '!'}


def render(t, style='op'):
    k = t[0]
    if k == 'lit':
        v = t[2]
        if isinstance(v, bool): return 'true' if v else 'false'
        if isinstance(v, int): return xint(v)
        if isinstance(v, float): return xfloat(v)
        return xstr(v)
    if k == 'var': return t[2]
    if k == 'bin':
        if style == 'fn':
            return '%s(%s, %s)' % (t[2], render(t[3], style), render(t[4], style))
        return '(%s %s %s)' % (render(t[3], style), OPSYM[t[2]], render(t[4], style))
    if k == 'un':
        if style == 'fn':
            return '%s(%s)' % (t[2], render(t[3], style))
        return '(%s%s)' % (UNSYM[t[2]], render(t[3], style))
    if k == 'if': return 'if(%s, %s, %s)' % (render(t[2], style), render(t[3], style), render(t[4], style))
    if k == 'call':
        if t[2] == 'opt_or':
            return '(%s || %s)' % (render(t[3][0], style), render(t[3][1], style))
        return '%s(%s)' % (t[2], ', '.join(render(a, style) for a in t[3]))
    if k == 'method': return '%s.%s(%s)' % (render(t[3], style), t[2], ', '.join(render(a, style) for a in t[4]))
    if k == 'tuple': return '(%s%s)' % (', '.join(render(a, style) for a in t[2]), ',' if len(t[2]) == 1 else '')
    if k == 'item': return '%s::item%d' % (render(t[2], style), t[3])
    if k == 'array': return '[%s]' % ', '.join(render(a, style) for a in t[2])
    if k == 'index':
        if style == 'fn':
            return 'get(%s, %s)' % (render(t[2], style), render(t[3], style))
        return '%s[%s]' % (render(t[2], style), render(t[3], style))
    if k == 'struct': return '%s(%s)' % (t[1], ', '.join(render(a, style) for a in t[3]))
    if k == 'member': return '%s::%s' % (render(t[2], style), t[3])
    if k == 'variant': return '%s::%s(%s)' % (t[1], t[2], render(t[4], style))
    if k == 'optmember': return '%s?:%s' % (render(t[2], style), t[3])
    if k == 'valmember': return '%s!:%s' % (render(t[2], style), t[3])
    if k == 'display':
        if t[3] is None:
            return 'display(%s)' % render(t[2], style)
        return 'display(%s, %s)' % (render(t[2], style), xstr(t[3]))
    if k == 'err':
        # typed through a helper so that overload resolution sees the intended type (a bare error literal has the bottom type)
        return {'int': 'ei(%s)', 'str': 'es(%s)'}.get(t[1], 'error(%s)') % xstr(t[2])
    if k == 'lam':
        ps = ', '.join('%s: %s%s' % (n, ty, '' if d is None else ' ?= ' + render(d, style)) for n, ty, d in t[2])
        return '(%s)->{ %s }' % (ps, render_body(t[3], style))
    if k == 'block': return '(()->{ %s })()' % render_body(t, style)
    if k == 'apply': return '%s(%s)' % (render(t[2], style), ', '.join(render(a, style) for a in t[3]))
    raise ValueError(k)


def render_body(t, style='op'):
    if t[0] == 'block':
        return ' '.join('let %s = %s;' % (n, render(x, style)) for n, x in t[2]) + ' ' + render(t[3], style)
    return render(t, style)


# ----------------------------------------------------------------------------- evaluation
def to_str(v):
    if isinstance(v, bool): return 'true' if v else 'false'
    if isinstance(v, int): return str(v)
    if isinstance(v, str): return v
    if isinstance(v, list): return '[' + ', '.join(to_str(x) for x in v) + ']'
    if isinstance(v, tuple): return '(' + ', '.join(to_str(x) for x in v) + ')'
    raise ValueError('to_str of %r is not modelled' % (v,))


def fin(x):
    return x if isinstance(x, float) and math.isfinite(x) else ErrV('non-finite')


def sgn(x): return (x > 0) - (x < 0)


def _pow(a, b):
    if b < 0 or (a == 0 and b == 0): return ErrV('pow')
    if b > 256 and abs(a) > 1:
        raise OverflowError('power too large for the reference evaluator: the term is skipped')
    return a ** b


def _idiv(a, b):
    if b == 0: return ErrV('div0')
    if a == 0 and b < -(1 << 63):
        # the sign of an integer zero divided by a negative long is not specified (the short path gives -0.0, the rational path 0.0)
        raise OverflowError('sign of zero unspecified: the term is skipped')
    try:
        return fin(a / b)
    except OverflowError:
        return ErrV('overflow')


def _fdiv(a, b):
    try:
        return fin(a / b)
    except ZeroDivisionError:
        return ErrV('div0')


def _fmod(a, b):
    if b == 0.0: return ErrV('mod0')
    return fin(math.fmod(math.fmod(a, b) + b, b))


BIN = {
    ('add', INT): lambda a, b: a + b, ('sub', INT): lambda a, b: a - b, ('mul', INT): lambda a, b: a * b,
    ('mod', INT): lambda a, b: ErrV('mod0') if b == 0 else a % b, ('div', INT): _idiv, ('pow', INT): _pow,
    ('bit_and', INT): lambda a, b: a & b, ('bit_or', INT): lambda a, b: a | b, ('bit_xor', INT): lambda a, b: a ^ b,
    ('add', FLOAT): lambda a, b: fin(a + b), ('sub', FLOAT): lambda a, b: fin(a - b), ('mul', FLOAT): lambda a, b: fin(a * b), ('div', FLOAT): _fdiv,
    ('add', STR): lambda a, b: a + b,
}
for _t in (INT, FLOAT, STR):
    BIN[('lt', _t)] = lambda a, b: a < b
    BIN[('le', _t)] = lambda a, b: a <= b
    BIN[('gt', _t)] = lambda a, b: a > b
    BIN[('ge', _t)] = lambda a, b: a >= b
    BIN[('eq', _t)] = lambda a, b: a == b
    BIN[('ne', _t)] = lambda a, b: a != b
BIN[('eq', BOOL)] = lambda a, b: a == b
BIN[('ne', BOOL)] = lambda a, b: a != b


def seq_get(s, i):
    n = len(s)
    if -n <= i < n: return s[i]
    return ErrV('index')


CALLS = {
    'abs': lambda a: abs(a), 'sign': lambda a: sgn(a), 'min': lambda a, b: min(a, b), 'max': lambda a, b: max(a, b), 'cmp': lambda a, b: sgn((a > b) - (a < b)),
    'to_str': lambda a: to_str(a), 'len': lambda a: len(a), 'div_floor': lambda a, b: ErrV('div0') if b == 0 else a // b,
    'some': lambda a: Opt(a, True), 'value': lambda o: o.v if o.has else ErrV('none'), 'has_value': lambda o: o.has,
    'get': seq_get, 'push': lambda s, x: s + [x], 'rpush': lambda s, x: [x] + s, 'floor': lambda f: math.floor(f), 'to_float': lambda i: fin(float(i)),
    'neg': lambda a: -a, 'not': lambda a: not a, 'gcd': lambda a, b: math.gcd(a, b),
    'ino': lambda: Opt(None, False), 'ids': lambda s: s, 'inc': lambda x: x + 1,
}
SHORT = {'if', 'and', 'or', 'then', 'if_error', 'is_error', 'get_error', 'map_or', 'opt_or'}


def ev(t, env, ctx):
    k = t[0]
    if k == 'lit': return t[2]
    if k == 'var': return env[t[2]]
    if k == 'err': return ErrV(t[2])
    if k == 'display':
        v = ev(t[2], env, ctx)
        if isinstance(v, ErrV): return v
        ctx.out.append((t[3] or '') + to_str(v))
        return v
    if k == 'bin':
        op = t[2]
        if op in ('and', 'or'):
            a = ev(t[3], env, ctx)
            if isinstance(a, ErrV): return a
            if (op == 'and' and not a) or (op == 'or' and a): return a
            return ev(t[4], env, ctx)
        vals = strict([t[3], t[4]], env, ctx)
        if isinstance(vals, ErrV): return vals
        return BIN[(op, t[3][1])](*vals)
    if k == 'un':
        a = ev(t[3], env, ctx)
        if isinstance(a, ErrV): return a
        return (-a) if t[2] == 'neg' else (not a)
    if k == 'if':
        c = ev(t[2], env, ctx)
        if isinstance(c, ErrV): return c
        return ev(t[3] if c else t[4], env, ctx)
    if k in ('call', 'method'):
        f = t[2]
        args = t[3] if k == 'call' else [t[3]] + t[4]
        if f == 'is_error': return isinstance(ev(args[0], env, ctx), ErrV)
        if f == 'get_error':
            v = ev(args[0], env, ctx)
            return Opt(v.msg, True) if isinstance(v, ErrV) else Opt(None, False)
        if f == 'if_error':
            v = ev(args[0], env, ctx)
            return ev(args[1], env, ctx) if isinstance(v, ErrV) else v
        if f == 'then':
            c = ev(args[0], env, ctx)
            if isinstance(c, ErrV): return c
            if not c: return Opt(None, False)
            v = ev(args[1], env, ctx)
            return v if isinstance(v, ErrV) else Opt(v, True)
        if f == 'opt_or':     # Optional || default-value
            o = ev(args[0], env, ctx)
            if isinstance(o, ErrV): return o
            return o.v if o.has else ev(args[1], env, ctx)
        if f == 'map':
            vals = strict(args, env, ctx)
            if isinstance(vals, ErrV): return vals
            o, fn = vals
            if isinstance(o, Opt):
                if not o.has: return o
                r = apply_closure(fn, [o.v], ctx)
                return r if isinstance(r, ErrV) else Opt(r, True)
            out = []
            for x in o:
                r = apply_closure(fn, [x], ctx)
                if isinstance(r, ErrV): return r
                out.append(r)
            return out
        if f in env and isinstance(env[f], Closure):
            vals = strict(args, env, ctx, user=True)
            if isinstance(vals, ErrV): return vals
            return apply_closure(env[f], vals, ctx)
        vals = strict(args, env, ctx)
        if isinstance(vals, ErrV): return vals
        if f == 'none': return Opt(None, False)
        return CALLS[f](*vals)
    if k == 'apply':
        fn = ev(t[2], env, ctx)
        if isinstance(fn, ErrV): return fn
        vals = strict(t[3], env, ctx, user=True)
        if isinstance(vals, ErrV): return vals
        return apply_closure(fn, vals, ctx)
    if k == 'tuple' or k == 'array':
        vals = strict(t[2], env, ctx)
        if isinstance(vals, ErrV): return vals
        return tuple(vals) if k == 'tuple' else list(vals)
    if k == 'struct':
        vals = strict(t[3], env, ctx)
        if isinstance(vals, ErrV): return vals
        return tuple(vals)
    if k == 'item' or k == 'member':
        v = ev(t[2], env, ctx)
        if isinstance(v, ErrV): return v
        return v[t[3] if k == 'item' else t[4]]
    if k == 'index':
        vals = strict([t[2], t[3]], env, ctx)
        if isinstance(vals, ErrV): return vals
        return seq_get(*vals)
    if k == 'variant':
        v = ev(t[4], env, ctx)
        if isinstance(v, ErrV): return v
        return Un(t[3], v)
    if k == 'optmember':
        v = ev(t[2], env, ctx)
        if isinstance(v, ErrV): return v
        return Opt(v.v, True) if v.idx == t[4] else Opt(None, False)
    if k == 'valmember':
        v = ev(t[2], env, ctx)
        if isinstance(v, ErrV): return v
        return v.v if v.idx == t[4] else ErrV('variant')
    if k == 'lam':
        # defaults are evaluated once, when the function value is created, in the defining scope
        ds = []
        for n, ty, d in t[2]:
            ds.append(None if d is None else ev(d, env, ctx))
        return Closure(t[2], ds, t[3], env)
    if k == 'block':
        e2 = dict(env)
        for n, x in t[2]:
            e2[n] = ev(x, e2, ctx)
        return ev(t[3], e2, ctx)
    raise ValueError(k)


def has_display(t):
    if not isinstance(t, tuple): return False
    if t and t[0] == 'display': return True
    return any(has_display(x) if isinstance(x, tuple) else (isinstance(x, list) and any(has_display(y) for y in x if isinstance(y, tuple))) for x in t[1:])


def strict(args, env, ctx, user=False):
    """left to right, each exactly once; the leftmost error is the result.  Whether arguments right of an erroring one are
    evaluated is unspecified: if one of them could print, the output of this program is not compared."""
    vals = []
    first_err = None
    for i, a in enumerate(args):
        if first_err is not None:
            if has_display(a):
                ctx.ambiguous = True
            continue
        v = ev(a, env, ctx)
        if isinstance(v, ErrV):
            first_err = v
        vals.append(v)
    return first_err if first_err is not None else vals


def apply_closure(fn, vals, ctx):
    ctx.calls += 1
    ctx.depth += 1
    ctx.max_depth = max(ctx.max_depth, ctx.depth)
    e2 = dict(fn.env)
    if fn.name:
        e2[fn.name] = fn
    for i, (n, ty, d) in enumerate(fn.params):
        e2[n] = vals[i] if i < len(vals) else fn.defaults[i]
    r = ev(fn.body, e2, ctx)
    ctx.depth -= 1
    return r


def to_core(v):
    """model value -> the decoded-dump representation used by core.veq"""
    if isinstance(v, ErrV):
        from ..core import Err
        return Err(v.msg)
    if isinstance(v, list): return Seq([to_core(x) for x in v])
    if isinstance(v, tuple): return tuple(to_core(x) for x in v)
    if isinstance(v, Opt): return Opt(to_core(v.v), True) if v.has else Opt(None, False)
    if isinstance(v, Un): return Un(v.idx, to_core(v.v))
    if isinstance(v, Closure):
        from ..core import Fn
        return Fn('user')
    return v
