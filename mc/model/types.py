"""Reference model of xray's static types for C04 / C05: representation, rendering, assignability, least common type, generic
binding.  Written from the documented rules (book/src/lang/types.md, functions.md, structs.md, unions.md and the property text):
  * identical types are assignable;
  * the bottom type `?` (errors, element type of empty containers, none()) is assignable to anything;
  * native containers, tuples and user compounds are assignable component-wise (same constructor / same declaration, same length);
  * callables need the same arity (a named function with optional parameters offers every arity in its window) and assignable
    component types;
  * a generic parameter is bound to the least common type of everything supplied for it; no common type = rejection.

types:  'int' 'float' 'str' 'bool' 'unk'
        ('nat', name, (args...))        Sequence / Optional / Generator / Mapping / Set / Stack
        ('tup', (items...))
        ('fn', (params...), ret)         callable type as written in source
        ('named', (params...), n_optional, ret)   a named function / lambda value: offers arities len-n_optional..len
        ('cmp', name, (args...))         user struct / union
        ('var', 'T')                     generic parameter
"""
BASE = ('int', 'float', 'str', 'bool')


def render(t):
    if isinstance(t, str):
        return '?' if t == 'unk' else t
    k = t[0]
    if k == 'nat' or k == 'cmp':
        return t[1] + ('<%s>' % ', '.join(render(a) for a in t[2]) if t[2] else '')
    if k == 'tup':
        return '(%s)' % ', '.join(render(a) for a in t[1])
    if k == 'fn':
        return '(%s)->(%s)' % (', '.join(render(a) for a in t[1]), render(t[2]))
    if k == 'named':
        return '(%s)->(%s)' % (', '.join(render(a) for a in t[1]), render(t[3]))
    if k == 'var':
        return t[1]
    raise ValueError(t)


def writable(t):
    """can the type be written in source (no bottom type inside, not a named-function type)"""
    if isinstance(t, str):
        return t != 'unk'
    k = t[0]
    if k in ('nat', 'cmp'):
        return all(writable(a) for a in t[2])
    if k == 'tup':
        return all(writable(a) for a in t[1])
    if k == 'fn':
        return all(writable(a) for a in t[1]) and writable(t[2])
    if k == 'named':
        return False
    return True


def arities(t):
    if t[0] == 'fn':
        return (len(t[1]), len(t[1]))
    return (len(t[1]) - t[2], len(t[1]))


def fparams(t):
    return t[1]


def fret(t):
    return t[2] if t[0] == 'fn' else t[3]


def assignable(req, sup):
    """may a value of static type `sup` be supplied where `req` is required (no generic variables in req)"""
    if sup == 'unk':
        return True
    if req == 'unk':
        return True
    if isinstance(req, str) or isinstance(sup, str):
        return req == sup
    kr, ks = req[0], sup[0]
    if kr in ('nat', 'cmp'):
        return ks == kr and req[1] == sup[1] and len(req[2]) == len(sup[2]) and all(assignable(a, b) for a, b in zip(req[2], sup[2]))
    if kr == 'tup':
        return ks == 'tup' and len(req[1]) == len(sup[1]) and all(assignable(a, b) for a, b in zip(req[1], sup[1]))
    if kr == 'fn':
        if ks not in ('fn', 'named'):
            return False
        lo, hi = arities(sup)
        n = len(req[1])
        if not (lo <= n <= hi):
            return False
        return all(assignable(a, b) for a, b in zip(req[1], fparams(sup))) and assignable(req[2], fret(sup))
    if kr == 'named':
        return isinstance(sup, tuple) and sup[0] in ('fn', 'named') and sig_of(req) == sig_of(sup)
    return False


def lub(a, b):
    """least common type or None"""
    if a == b:
        return a
    if a == 'unk':
        return b
    if b == 'unk':
        return a
    if isinstance(a, str) or isinstance(b, str):
        return None
    if a[0] != b[0]:
        return None
    k = a[0]
    if k in ('nat', 'cmp'):
        if a[1] != b[1] or len(a[2]) != len(b[2]):
            return None
        args = [lub(x, y) for x, y in zip(a[2], b[2])]
        return None if any(x is None for x in args) else (k, a[1], tuple(args))
    if k == 'tup':
        if len(a[1]) != len(b[1]):
            return None
        args = [lub(x, y) for x, y in zip(a[1], b[1])]
        return None if any(x is None for x in args) else ('tup', tuple(args))
    if k in ('fn', 'named'):
        return None
    return None


UNSPEC = 'UNSPEC'


def sig_of(t):
    return (tuple(fparams(t)), fret(t), arities(t))


def lub_c(a, b):
    """least common type where callables of different kinds are compared by signature: identical parameter types, return type
    and arity window = that type; identical types but different windows = unspecified; otherwise none"""
    def callable_(t):
        return isinstance(t, tuple) and t[0] in ('fn', 'named')
    if callable_(a) and callable_(b):
        pa, ra, wa = sig_of(a)
        pb, rb, wb = sig_of(b)
        if pa == pb and ra == rb:
            return a if wa == wb else UNSPEC
        if len(pa) == len(pb) and wa == wb:
            # component-wise only through the bottom type
            ps = [lub_c(x, y) for x, y in zip(pa, pb)]
            r = lub_c(ra, rb)
            if r is None or any(x is None for x in ps):
                return None
            return UNSPEC
        return None
    if a == b:
        return a
    if a == 'unk':
        return b
    if b == 'unk':
        return a
    if isinstance(a, str) or isinstance(b, str):
        return None
    if a[0] != b[0]:
        return None
    k = a[0]
    if k in ('nat', 'cmp'):
        if a[1] != b[1] or len(a[2]) != len(b[2]):
            return None
        args = [lub_c(x, y) for x, y in zip(a[2], b[2])]
        if any(x is None for x in args):
            return None
        return UNSPEC if any(x == UNSPEC for x in args) else (k, a[1], tuple(args))
    if k == 'tup':
        if len(a[1]) != len(b[1]):
            return None
        args = [lub_c(x, y) for x, y in zip(a[1], b[1])]
        if any(x is None for x in args):
            return None
        return UNSPEC if any(x == UNSPEC for x in args) else ('tup', tuple(args))
    return None


def match(param, sup, bind):
    """structural match of a parameter type (may hold generic variables) against a supplied type; extends bind {var: [types]};
    returns False on a structural mismatch"""
    if isinstance(param, tuple) and param[0] == 'var':
        bind.setdefault(param[1], []).append(sup)
        return True
    if sup == 'unk':
        return True
    if isinstance(param, str) or isinstance(sup, str):
        return param == sup
    kp, ks = param[0], sup[0]
    if kp in ('nat', 'cmp'):
        return ks == kp and param[1] == sup[1] and len(param[2]) == len(sup[2]) and all(match(a, b, bind) for a, b in zip(param[2], sup[2]))
    if kp == 'tup':
        return ks == 'tup' and len(param[1]) == len(sup[1]) and all(match(a, b, bind) for a, b in zip(param[1], sup[1]))
    if kp == 'fn':
        if ks not in ('fn', 'named'):
            return False
        lo, hi = arities(sup)
        if not (lo <= len(param[1]) <= hi):
            return False
        return all(match(a, b, bind) for a, b in zip(param[1], fparams(sup))) and match(param[2], fret(sup), bind)
    return False


def subst(t, b):
    if isinstance(t, str):
        return t
    k = t[0]
    if k == 'var':
        return b.get(t[1], t)
    if k in ('nat', 'cmp'):
        return (k, t[1], tuple(subst(a, b) for a in t[2]))
    if k == 'tup':
        return ('tup', tuple(subst(a, b) for a in t[1]))
    if k == 'fn':
        return ('fn', tuple(subst(a, b) for a in t[1]), subst(t[2], b))
    return t


def bind_call(params, args):
    """generic call: returns (ok, binding) — every generic variable is bound to the least common type of what was supplied"""
    raw = {}
    for p, a in zip(params, args):
        if not match(p, a, raw):
            return False, None
    b = {}
    for v, ts in raw.items():
        cur = ts[0]
        for t in ts[1:]:
            cur = lub_c(cur, t)
            if cur is None:
                return False, None
            if cur == UNSPEC:
                return UNSPEC, None
        b[v] = cur
    # with the variables bound, every argument must be assignable to its parameter
    for p, a in zip(params, args):
        if not assignable(subst(p, b), a):
            return False, None
    return True, b


def has_unknown(t):
    if t == 'unk':
        return True
    if isinstance(t, str):
        return False
    k = t[0]
    if k in ('nat', 'cmp'):
        return any(has_unknown(a) for a in t[2])
    if k == 'tup':
        return any(has_unknown(a) for a in t[1])
    if k == 'fn':
        return any(has_unknown(a) for a in t[1]) or has_unknown(t[2])
    if k == 'named':
        return any(has_unknown(a) for a in t[1]) or has_unknown(t[3])
    return False


def has_var(t):
    if isinstance(t, str):
        return False
    k = t[0]
    if k == 'var':
        return True
    if k in ('nat', 'cmp'):
        return any(has_var(a) for a in t[2])
    if k == 'tup':
        return any(has_var(a) for a in t[1])
    if k == 'fn':
        return any(has_var(a) for a in t[1]) or has_var(t[2])
    return False


def leaf_flips(t):
    """types that differ from t in exactly one leaf (int<->str, float->int, bool->int)"""
    flip = {'int': 'str', 'str': 'int', 'float': 'int', 'bool': 'int'}
    if isinstance(t, str):
        return [flip[t]] if t in flip else []
    k = t[0]
    out = []
    if k in ('nat', 'cmp'):
        for i, a in enumerate(t[2]):
            if k == 'nat' and t[1] in ('Mapping', 'Set') and i == 0:
                continue      # keys must stay hashable: keep them
            for f in leaf_flips(a):
                out.append((k, t[1], t[2][:i] + (f,) + t[2][i + 1:]))
    elif k == 'tup':
        for i, a in enumerate(t[1]):
            for f in leaf_flips(a):
                out.append(('tup', t[1][:i] + (f,) + t[1][i + 1:]))
    elif k == 'fn':
        for i, a in enumerate(t[1]):
            for f in leaf_flips(a):
                out.append(('fn', t[1][:i] + (f,) + t[1][i + 1:], t[2]))
        for f in leaf_flips(t[2]):
            out.append(('fn', t[1], f))
    return out


# ----------------------------------------------------------------------------- witnesses
DECLS = ('struct S0(a: int)\nstruct S1<T>(a: T)\nstruct S2<A, B>(a: A, b: B)\nunion U1<T>(v: T, n: int)\nunion U0(i: int, s: str)\n'
         'fn nf1(x: int)->int{ x }\nfn nf1s(x: int)->str{ "s" }\nfn nf2(x: int, y: int)->int{ x }\nfn nf12(x: int, y: int ?= 1)->int{ x }\nfn nf01(x: int ?= 1)->int{ x }\n'
         'fn nf0()->int{ 1 }\nfn nfs(x: str)->int{ 1 }\nfn nf02(x: int ?= 1, y: int ?= 2)->int{ x }\n')
NAMED = {
    'nf1': ('named', ('int',), 0, 'int'), 'nf1s': ('named', ('int',), 0, 'str'), 'nf2': ('named', ('int', 'int'), 0, 'int'),
    'nf12': ('named', ('int', 'int'), 1, 'int'), 'nf01': ('named', ('int',), 1, 'int'), 'nf0': ('named', (), 0, 'int'), 'nfs': ('named', ('str',), 0, 'int'),
    'nf02': ('named', ('int', 'int'), 2, 'int'),
}
BASEW = {'int': '1', 'float': '1.5', 'str': '"s"', 'bool': 'true', 'unk': 'error("x")'}


def witness(t):
    """an expression whose static type is exactly t, or None"""
    if isinstance(t, str):
        return BASEW[t]
    k = t[0]
    if k == 'nat':
        n, a = t[1], t[2]
        if n == 'Sequence':
            return '[]' if a[0] == 'unk' else (None if witness(a[0]) is None else '[%s]' % witness(a[0]))
        if n == 'Optional':
            return 'none()' if a[0] == 'unk' else (None if witness(a[0]) is None else 'some(%s)' % witness(a[0]))
        if n == 'Generator':
            w = witness(('nat', 'Sequence', a))
            return None if w is None or a[0] == 'unk' else '%s.to_generator()' % w
        if n == 'Stack':
            return None if a[0] == 'unk' or witness(a[0]) is None else 'stack().push(%s)' % witness(a[0])
        if n == 'Set':
            return None if a[0] not in ('int', 'str') else 'set<%s>().add(%s)' % (a[0], witness(a[0]))
        if n == 'Mapping':
            if a[0] not in ('int', 'str') or a[1] == 'unk' or witness(a[1]) is None:
                return None
            return 'mapping<%s>().set(%s, %s)' % (a[0], witness(a[0]), witness(a[1]))
        return None
    if k == 'tup':
        ws = [witness(a) for a in t[1]]
        if any(w is None for w in ws) or any(a == 'unk' for a in t[1]):
            return None
        return '(%s%s)' % (', '.join(ws), ',' if len(ws) == 1 else '')
    if k == 'cmp':
        ws = [witness(a) for a in t[2]]
        if any(w is None for w in ws):
            return None
        if t[1] == 'S0':
            return 'S0(1)'
        if t[1] == 'S1':
            return 'S1(%s)' % ws[0]
        if t[1] == 'S2':
            return 'S2(%s, %s)' % (ws[0], ws[1])
        if t[1] == 'U1':
            return 'U1::v(%s)' % ws[0]
        if t[1] == 'U0':
            return 'U0::i(1)'
        return None
    if k == 'named':
        for n, nt in NAMED.items():
            if nt == t:
                return n
        return None
    if k == 'fn':
        # a lambda literal: its value offers exactly this arity
        if not writable(t):
            return None
        w = witness(t[2])
        if w is None:
            return None
        return '(%s)->{ %s }' % (', '.join('p%d: %s' % (i, render(a)) for i, a in enumerate(t[1])), w)
    return None
