"""E1 engine: a table of closed expression cases, each compared with the reference verdict."""
import json
from . import core
from .core import (Err, Viol, Panic, Fatal, CErr, HostErr, Outcome, veq, run_units, Failure, Report, pmap, chunks)

ERR = ('ERR',)            # expectation: an error value (message unspecified)
UNSPEC = ('UNSPEC',)      # expectation: any value or error, but no panic / abort / violation
NOTVAL = 'NOTVAL'     # an error value or a limit violation, never a value
ANYVAL = ('ANYVAL',)      # expectation: some value (not an error)


def classify(v):
    if isinstance(v, Err): return 'error'
    if isinstance(v, Viol): return 'violation:' + v.kind
    if isinstance(v, Panic): return 'panic'
    if isinstance(v, Fatal): return 'fatal:' + v.kind
    if isinstance(v, CErr): return 'compile-error:' + v.cls
    if isinstance(v, HostErr): return 'host-error'
    return 'value'


def has_bad_node(v):
    """errors / violations / panics embedded inside a value (e.g. a sequence element)"""
    for n in core.walk(v):
        if n is not v and isinstance(n, (Err, Viol, Panic)):
            return n
    return None


def judge(exp, out):
    """-> (ok, discrepancy kind)"""
    v = out.v
    if isinstance(v, Panic):
        return False, 'panic@' + v.loc
    if isinstance(v, Fatal):
        return False, 'fatal:' + v.kind
    if isinstance(v, CErr):
        return False, 'rejected:' + v.cls
    if isinstance(v, HostErr):
        return False, 'host-error'
    if exp is NOTVAL or exp == NOTVAL:
        return (True, '') if isinstance(v, (Err, Viol)) else (False, 'value-should-be-error-or-violation')
    if isinstance(v, Viol):
        if isinstance(exp, Viol) and exp == v:
            return True, ''
        return False, 'violation:' + v.kind
    if isinstance(exp, Viol):
        return False, 'missing-violation:' + exp.kind
    if exp is UNSPEC or exp == UNSPEC:
        bad = has_bad_node(v)
        if isinstance(bad, Panic): return False, 'panic-inside@' + bad.loc
        return True, ''
    if exp is ERR or exp == ERR:
        return (True, '') if isinstance(v, Err) else (False, 'value-should-be-error')
    if isinstance(exp, tuple) and len(exp) == 2 and exp[0] == 'PRED':
        ok, why = PREDICATES[exp[1][0]](v, *exp[1][1:])
        return ok, why
    if isinstance(v, Err):
        if exp is ANYVAL or exp == ANYVAL:
            return False, 'error-should-be-value'
        if isinstance(exp, Err):
            return (True, '') if exp.msg is None or exp.msg == v.msg else (False, 'wrong-error-message')
        return False, 'error-should-be-value'
    if exp is ANYVAL or exp == ANYVAL:
        bad = has_bad_node(v)
        if bad is not None: return False, 'bad-node-inside'
        return True, ''
    if isinstance(exp, tuple) and len(exp) == 2 and exp[0] == 'PRED':
        ok, why = PREDICATES[exp[1][0]](v, *exp[1][1:])
        return ok, why
    if veq(exp, v):
        return True, ''
    return False, 'wrong-value'


PREDICATES = {}


def predicate(fn):
    PREDICATES[fn.__name__] = fn
    return fn


def pred(name, *args):
    return ('PRED', (name,) + args)


def unit_src(case, name):
    """a case is an expression (src) or a full declaration template (decl) with NAME as placeholder"""
    if case.get('decl'):
        return case['decl'].replace('NAME', name)
    return 'let %s = ()->{ %s };' % (name, case['src'])


def _run_chunk(args):
    prop, chunk, opts = args
    units = [('c%d' % i, unit_src(case, 'c%d' % i)) for i, case in enumerate(chunk)]
    outs = run_units(units, prelude=opts.get('prelude', ()), limits=opts.get('limits'), perms=opts.get('perms'),
                     dump=opts.get('dump'), now=opts.get('now'), timeout=opts.get('timeout', 15.0))
    res = []
    for i, (case, out) in enumerate(zip(chunk, outs)):
        ok, why = judge(case['exp'], out)
        cls = classify(out.v)
        if ok and case.get('out') is not None and out.out != case['out']:
            ok, why = False, 'wrong-output'
        fail = None
        if not ok:
            job = core.unit_job(opts.get('prelude', ()), 'c0', unit_src(case, 'c0'),
                                opts.get('limits'), opts.get('perms'), opts.get('dump'), opts.get('now'))
            fail = {'sig': '%s|%s' % (case['sig'], why), 'case': {k: v for k, v in case.items() if k not in ('exp',)},
                    'expected': repr(case['exp']) + (' out=%r' % case['out'] if case.get('out') is not None else ''),
                    'actual': repr(out.v) + (' out=%r' % out.out if out.out else ''), 'job': job}
        res.append((ok, cls, fail, bool(case.get('nt', True))))
    return res


def run_table(rep, cases, opts=None, chunk=150):
    """cases: dicts with src (expression) or decl, exp, sig, optional out / nt.  Updates the report."""
    opts = opts or {}
    cases = list(cases)
    work = [(rep.prop, c, opts) for c in chunks(cases, chunk)]
    idx = 0
    for res in pmap(_run_chunk, work):
        for ok, cls, fail, nt in res:
            case = cases[idx]
            idx += 1
            rep.evaluations += 1
            rep.outcome(cls)
            if nt:
                rep.nontrivial.add(case['sig'])
            if fail is not None:
                f = Failure(rep.prop, fail['sig'], fail['case'], fail['expected'], fail['actual'], fail['job'])
                rep.fail(f)
    if cases:
        for k in (0, len(cases) // 2, len(cases) - 1):
            c = cases[k]
            rep.sample({'src': c.get('src') or c.get('decl'), 'expected': repr(c['exp'])[:200]}, cap=9)


def replay_table(rec, opts=None):
    """re-run one recorded failing case twice on fresh runners; identical observations required"""
    case = dict(rec['case'])
    job = rec['job']
    r1 = core.Runner(); a = r1.run(job); r1.stop()
    r2 = core.Runner(); b = r2.run(job); r2.stop()
    strip = lambda r: json.dumps([x.get('v') for x in r.get('replies', [])] if 'replies' in r else r, sort_keys=True)
    if strip(a) != strip(b):
        print('MACHINERY-ERROR: replay is not deterministic')
        return 2
    print('replay of %s' % rec['sig'])
    print('  expected: %s' % rec['expected'])
    print('  recorded: %s' % rec['actual'])
    last = [x for x in a.get('replies', []) if 'v' in x]
    print('  observed: %s' % (json.dumps(last[-1]['v'])[:600] if last else a))
    return 0
