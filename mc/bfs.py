"""E2 engine: explicit-state breadth-first search over operation histories, executed on the implementation and on a
reference model in the same step.  A state is the shortest history (an expression) that reaches it — values are immutable,
so a state is rebuilt by replaying its history; the canonical key is (abstract model state, representation fingerprint).
Every explored transition checks: the operation's result observes like the model's post-state, and the pre-state still
observes like the model's pre-state after the operation ran (immutability / persistence)."""
from . import core
from .core import (Err, Viol, Panic, Fatal, CErr, HostErr, veq, run_units, pmap, chunks, Failure, decode, mk_unit_job)

ERR = ('ERR',)


class Domain:
    """subclass and fill in"""
    prop = 'C00'
    prelude = ''
    dump = {'max_items': 40, 'repr': True}
    limits = None

    def inits(self):            # -> [(label, expr, model_state)]
        raise NotImplementedError

    def ops(self, m, others):   # -> [(label, expr_template_using_S, model_post_or_ERR)]   others: [(expr, model)] for binary ops
        raise NotImplementedError

    def observers(self, m):     # -> [(label, expr_template_using_S, expected, normaliser_name_or_None)]
        raise NotImplementedError

    def fingerprint(self, m, dumped):   # representation fingerprint taken from the dumped state
        return None

    def key(self, m):           # hashable abstract state
        return repr(m)

    def normalise(self, name, v):
        return v


def _unit(dom, hexpr, op_expr, obs_pre, obs_post, expect_err, terminal=False):
    """source of one edge"""
    s1 = op_expr.replace('S', 's0')
    ann = (': ' + dom.state_type) if getattr(dom, 'state_type', None) else ''
    if expect_err:
        return 'let s0%s = %s; (is_error(%s), (%s%s))' % (ann, hexpr, s1, ', '.join(o.replace('S', 's0') for o in obs_pre), ',' if len(obs_pre) == 1 else '')
    post = ', '.join(o.replace('S', 's1') for o in obs_post)
    pre = ', '.join(o.replace('S', 's0') for o in obs_pre)
    return 'let s0%s = %s; let s1%s = %s; (s1, (%s%s), (%s%s))' % (ann, hexpr, '' if terminal else ann, s1, post, ',' if len(obs_post) == 1 else '', pre, ',' if len(obs_pre) == 1 else '')


def wrap_obs(src, expected):
    """an observer that is expected to yield an error is observed through is_error so it cannot poison the tuple"""
    if expected == ERR:
        return 'is_error(%s)' % src
    return src


def _check_obs(dom, label_prefix, obs, values, fails, sigbase, case, job):
    if not isinstance(values, tuple) or len(values) != len(obs):
        fails.append((sigbase + '|%s|observer-tuple-broken' % label_prefix, case, 'a tuple of %d observations' % len(obs), repr(values), job))
        return
    for (label, src, expected, norm), v in zip(obs, values):
        if expected == ERR:
            ok = v is True
            exp_r = 'an error value'
        else:
            if norm:
                v = dom.normalise(norm, v)
            if isinstance(expected, tuple) and len(expected) == 2 and expected[0] == 'PRED':
                ok = expected[1](v)
                exp_r = 'predicate ' + getattr(expected[1], '__name__', 'p')
            else:
                ok = veq(v, expected)
                exp_r = repr(expected)
        if not ok:
            fails.append((sigbase + '|%s:%s|wrong-observation' % (label_prefix, label), case, exp_r, repr(v), job))


def _is_maybe(mp):
    """('MAYBE', state): the operation may give an error value instead (request the book does not define)"""
    return isinstance(mp, tuple) and len(mp) == 2 and mp[0] == 'MAYBE'


def _edges(args):
    """worker: run a chunk of edges; returns per edge (status, fingerprint-dump, failures)"""
    dom, edges = args
    units = []
    metas = []
    edges = [(h, m, ol, oe, (mp[1] if _is_maybe(mp) else mp), _is_maybe(mp)) for (h, m, ol, oe, mp) in edges]
    for i, (hexpr, m, oplabel, op_expr, m_post, maybe) in enumerate(edges):
        obs_pre = dom.observers(m)
        expect_err = (m_post == ERR)
        obs_post = [] if expect_err else dom.observers(m_post)
        src = _unit(dom, hexpr, op_expr, [wrap_obs(o[1], o[2]) for o in obs_pre], [wrap_obs(o[1], o[2]) for o in obs_post], expect_err, oplabel.startswith('!'))
        units.append(('c%d' % i, 'let c%d = ()->{ %s };' % (i, src)))
        metas.append((obs_pre, obs_post, expect_err, src))
    outs = run_units(units, prelude=[dom.prelude] if dom.prelude else [], dump=dom.dump, limits=dom.limits, timeout=20.0)
    res = []
    for (hexpr, m, oplabel, op_expr, m_post, maybe), (obs_pre, obs_post, expect_err, src), o in zip(edges, metas, outs):
        fails = []
        sigbase = '%s|%s|%s' % (dom.prop, dom.key(m), oplabel)
        case = {'state': hexpr, 'op': op_expr, 'model_pre': repr(m), 'model_post': repr(m_post)}
        job = mk_unit_job([dom.prelude] if dom.prelude else [], [('c0', 'let c0 = ()->{ %s };' % src)], dom.limits, None, dom.dump)
        v = o.v
        fp = None
        if isinstance(v, (Panic, Fatal, CErr, HostErr, Viol)):
            why = {'Panic': 'panic@' + getattr(v, 'loc', ''), 'Fatal': 'fatal:' + getattr(v, 'kind', ''), 'CErr': 'rejected:' + getattr(v, 'cls', ''),
                   'HostErr': 'host-error', 'Viol': 'violation:' + getattr(v, 'kind', '')}[type(v).__name__]
            fails.append((sigbase + '|' + why, case, repr(m_post), repr(v), job))
            res.append(('crash', None, fails)); continue
        if isinstance(v, Err):
            if maybe:
                res.append(('allowed-error', None, fails)); continue
            # the whole edge is an error: either the operation failed although the model defines it, or an observer did
            fails.append((sigbase + '|error-should-be-value', case, repr(m_post), repr(v), job))
            res.append(('error', None, fails)); continue
        if expect_err:
            if not (isinstance(v, tuple) and len(v) == 2):
                fails.append((sigbase + '|edge-tuple-broken', case, '(is_error, pre-observations)', repr(v), job))
            else:
                if v[0] is not True:
                    fails.append((sigbase + '|value-should-be-error', case, 'an error value', 'a value', job))
                _check_obs(dom, 'pre', obs_pre, v[1], fails, sigbase, case, job)
            res.append(('expected-error', None, fails)); continue
        if not (isinstance(v, tuple) and len(v) == 3):
            fails.append((sigbase + '|edge-tuple-broken', case, '(state, post-observations, pre-observations)', repr(v), job))
            res.append(('broken', None, fails)); continue
        _check_obs(dom, 'post', obs_post, v[1], fails, sigbase, case, job)
        _check_obs(dom, 'pre', obs_pre, v[2], fails, sigbase, case, job)
        fp = dom.fingerprint(m_post, v[0])
        res.append(('value', fp, fails))
    return res


def explore(rep, dom, max_depth, max_states=None, edge_chunk=60, binary_pool=lambda states: []):
    """BFS to a fixpoint or to max_depth.  Updates the report; returns the number of states."""
    seen = {}
    frontier = []
    for label, expr, m in dom.inits():
        k = (dom.key(m), None)
        if k not in seen:
            seen[k] = (expr, m, 0)
            frontier.append((expr, m))
    depth = 0
    capped = False
    while frontier and depth < max_depth:
        depth += 1
        others = binary_pool([(e, m) for (e, m, d) in seen.values()])
        edges = []
        for hexpr, m in frontier:
            for oplabel, op_expr, m_post in dom.ops(m, others):
                edges.append((hexpr, m, oplabel, op_expr, m_post))
        new_frontier = []
        idx = 0
        for res in pmap(_edges, [(dom, c) for c in chunks(edges, edge_chunk)]):
            for status, fp, fails in res:
                hexpr, m, oplabel, op_expr, m_post = edges[idx]
                if _is_maybe(m_post):
                    m_post = m_post[1]
                idx += 1
                rep.transitions += 1
                rep.evaluations += 1
                rep.outcome(status)
                for sig, case, exp, act, job in fails:
                    rep.fail(Failure(dom.prop, sig, case, exp, act, job))
                if status == 'value' and not oplabel.startswith('!'):
                    if m_post != m or fp is not None:
                        rep.nontrivial_count += 1
                    k = (dom.key(m_post), fp)
                    if k not in seen:
                        if max_states and len(seen) >= max_states:
                            capped = True
                            continue
                        nexpr = '(%s)' % op_expr.replace('S', hexpr)
                        seen[k] = (nexpr, m_post, depth)
                        new_frontier.append((nexpr, m_post))
        frontier = new_frontier
    rep.states += len(seen)
    rep.traces += rep.transitions
    fix = not frontier
    rep.bounds.setdefault('bfs', []).append({'domain': getattr(dom, 'name', dom.prop), 'states': len(seen), 'depth_reached': depth,
                                             'fixpoint': fix, 'state_cap_hit': capped})
    if capped:
        rep.caps.append('%s: state cap hit at depth %d' % (getattr(dom, 'name', dom.prop), depth))
    return seen
