"""Standard-library surface: signature listing through the hook, a parser for rendered types,
per-type argument pools (xray source expressions) and call generation.  Shared by C01-B, C06-A, C13."""
import itertools
from . import core
from .core import xint, xfloat, xstr


def signatures():
    rep = core.run_job({'id': 0, 'limits': {}, 'steps': [{'op': 'signatures'}]})
    if 'fatal' in rep:
        raise core.Machinery('cannot list signatures: %r' % rep)
    return rep['replies'][0]['v']['signatures']


# ----------------------------------------------------------------------------- type strings
class TypeParseError(Exception):
    pass


def parse_type(s):
    t, rest = _ptype(s.strip())
    if rest.strip():
        raise TypeParseError('trailing %r in %r' % (rest, s))
    return t


def _plist(s, close):
    """parse comma separated types until `close`; returns (list, rest after close)"""
    items = []
    s = s.lstrip()
    if s.startswith(close):
        return items, s[len(close):]
    while True:
        t, s = _ptype(s)
        opt = False
        s = s.lstrip()
        if s.startswith('?'):
            opt = True
            s = s[1:].lstrip()
        items.append((t, opt))
        if s.startswith(','):
            s = s[1:].lstrip()
            continue
        if s.startswith(close):
            return items, s[len(close):]
        raise TypeParseError('expected , or %s at %r' % (close, s))


def _ptype(s):
    s = s.lstrip()
    if s.startswith('('):
        items, rest = _plist(s[1:], ')')
        r = rest.lstrip()
        if r.startswith('->'):
            r = r[2:].lstrip()
            if r.startswith('('):
                # either a parenthesised return type or a tuple / function type as the return type
                save = r
                inner, r2 = _plist(r[1:], ')')
                if r2.lstrip().startswith('->'):
                    ret, r2 = _ptype(save)
                    return ('fn', [i[0] for i in items], ret), r2
                if len(inner) == 1 and not _looks_tuple(save):
                    return ('fn', [i[0] for i in items], inner[0][0]), r2
                return ('fn', [i[0] for i in items], ('tuple', [i[0] for i in inner])), r2
            ret, r2 = _ptype(r)
            return ('fn', [i[0] for i in items], ret), r2
        return ('tuple', [i[0] for i in items]), rest
    if s.startswith('?'):
        return ('unknown',), s[1:]
    i = 0
    while i < len(s) and (s[i].isalnum() or s[i] == '_'):
        i += 1
    if i == 0:
        raise TypeParseError('type expected at %r' % s)
    name, rest = s[:i], s[i:]
    if rest.startswith('<'):
        items, rest = _plist(rest[1:], '>')
        return ('app', name, [x[0] for x in items]), rest
    return ('app', name, []), rest


def _looks_tuple(s):
    # "(int)" as a callable's return is a parenthesised type; "((int, int))" would be a tuple
    depth = 0
    angle = 0
    for ch in s:
        if ch == '(':
            depth += 1
        elif ch == ')':
            depth -= 1
            if depth == 0:
                break
        elif ch == '<':
            angle += 1
        elif ch == '>' and angle:
            angle -= 1
        elif ch == ',' and depth == 1 and angle == 0:
            return True
    return False


def render_type(t, bind=None):
    bind = bind or {}
    k = t[0]
    if k == 'unknown':
        return '?'
    if k == 'tuple':
        return '(' + ', '.join(render_type(x, bind) for x in t[1]) + ')'
    if k == 'fn':
        return '(' + ', '.join(render_type(x, bind) for x in t[1]) + ')->(' + render_type(t[2], bind) + ')'
    name, args = t[1], t[2]
    if not args and name in bind:
        return render_type(bind[name], bind)
    if not args:
        return name
    return name + '<' + ', '.join(render_type(x, bind) for x in args) + '>'


def subst(t, bind):
    k = t[0]
    if k == 'unknown':
        return t
    if k == 'tuple':
        return ('tuple', [subst(x, bind) for x in t[1]])
    if k == 'fn':
        return ('fn', [subst(x, bind) for x in t[1]], subst(t[2], bind))
    if not t[2] and t[1] in bind:
        return bind[t[1]]
    return ('app', t[1], [subst(x, bind) for x in t[2]])


INT = ('app', 'int', [])
FLOAT = ('app', 'float', [])
STR = ('app', 'str', [])
BOOL = ('app', 'bool', [])


def contains_type(t, name):
    k = t[0]
    if k == 'unknown':
        return False
    if k == 'tuple':
        return any(contains_type(x, name) for x in t[1])
    if k == 'fn':
        return any(contains_type(x, name) for x in t[1]) or contains_type(t[2], name)
    return t[1] == name or any(contains_type(x, name) for x in t[2])


# ----------------------------------------------------------------------------- pools
class Pools:
    """per-type lists of xray expressions, simplest first.  `scalars` overrides the base pools."""

    def __init__(self, ints=None, floats=None, strs=None, size=3, fn_bodies=True):
        self.ints = ints or [0, 1, -1, 2, 7, 1 << 64]
        self.floats = floats or [0.0, 1.0, -1.5, 0.5, 1e300]
        self.strs = strs if strs is not None else ['', 'a', 'é中', 'ab']
        self.size = size
        self.memo = {}

    def get(self, t, n=None):
        n = n or self.size
        key = (repr(t), n)
        if key not in self.memo:
            self.memo[key] = self._mk(t, n)[:max(n, 1)] if n else self._mk(t, n)
        return self.memo[key]

    def first(self, t):
        p = self.get(t, 1)
        return p[0] if p else None

    def _mk(self, t, n):
        k = t[0]
        if k == 'unknown':
            return ['none()']
        if k == 'tuple':
            parts = [self.get(x, n) for x in t[1]]
            if any(not p for p in parts):
                return []
            out = []
            # diagonal first, then vary one coordinate at a time (keeps pools small)
            firsts = [p[0] for p in parts]
            out.append(firsts)
            for i, p in enumerate(parts):
                for alt in p[1:]:
                    out.append(firsts[:i] + [alt] + firsts[i + 1:])
            return ['(%s%s)' % (', '.join(c), ',' if len(c) == 1 else '') for c in out]
        if k == 'fn':
            params = t[1]
            names = ['p%d' % i for i in range(len(params))]
            head = '(%s)->' % ', '.join('%s: %s' % (nm, render_type(p)) for nm, p in zip(names, params))
            out = []
            rets = self.get(t[2], 2)
            # identity-like bodies when a parameter has the return type
            for nm, p in zip(names, params):
                if p == t[2]:
                    out.append('%s{%s}' % (head, nm))
                    break
            if t[2] == BOOL and params:
                if params[0] == INT:
                    out.append('%s{p0 > 0}' % head)
                if len(params) == 2 and params[0] == params[1] and params[0] in (INT, FLOAT, STR):
                    out.append('%s{p0 == p1}' % head)
            if t[2] == INT and len(params) == 2 and params[0] == params[1] and params[0] in (INT, FLOAT, STR):
                out.append('%s{cmp(p0, p1)}' % head)
            if t[2] == INT and len(params) == 1 and params[0] in (INT, STR):
                out.append('%s{hash(p0)}' % head)
            if t[2] in (INT, FLOAT) and len(params) == 2 and params[0] == t[2] and params[1] == t[2]:
                out.append('%s{p0 + p1}' % head)
            for r in rets:
                out.append('%s{%s}' % (head, r))
            return out
        name, args = t[1], t[2]
        if name == 'int':
            return [xint(v) for v in self.ints]
        if name == 'float':
            return [xfloat(v) for v in self.floats]
        if name == 'str':
            return [xstr(v) for v in self.strs]
        if name == 'bool':
            return ['true', 'false']
        if name == 'Sequence':
            el = self.get(args[0], n)
            if not el:
                return ['[]']
            out = ['[%s]' % el[0], '[]', '[%s]' % ', '.join((el * 3)[:3])]
            if args[0] == INT:
                out += ['range(3)', '[3, 1, 2].map((x: int)->{x * 2})']
            if len(el) > 1:
                out.append('[%s]' % ', '.join(reversed(el[:4])))
            return out
        if name == 'Generator':
            return ['%s.to_generator()' % s for s in self.get(('app', 'Sequence', args), n)]
        if name == 'Optional':
            el = self.get(args[0], n)
            return ['none()'] + ['some(%s)' % e for e in el[:max(n - 1, 1)]]
        if name == 'Stack':
            el = self.get(args[0], n)
            if not el:
                return ['stack()']
            return ['stack().push(%s)' % el[0], 'stack()', 'stack().push(%s).push(%s)' % (el[0], el[-1])]
        if name == 'Set':
            el = self.get(args[0], n)
            base = self._setctor(args[0])
            if base is None or not el:
                return []
            return ['%s.add(%s)' % (base, el[0]), base, '%s.update([%s])' % (base, ', '.join(el[:3]))]
        if name == 'Mapping':
            ks = self.get(args[0], n)
            vs = self.get(args[1], n)
            base = self._mapctor(args[0])
            if base is None or not ks or not vs:
                return []
            return ['%s.set(%s, %s)' % (base, ks[0], vs[0]), '%s.update([(%s, %s)])' % (base, ks[0], vs[0]) if False else base,
                    '%s.set(%s, %s).set(%s, %s)' % (base, ks[0], vs[0], ks[-1], vs[-1])]
        if name == 'Complex':
            fl = self.get(FLOAT, n)
            return ['Complex(%s, %s)' % (fl[0], fl[-1]), 'complex(1.5)', 'Complex(%s, %s)' % (fl[-1], fl[0]), 'complex_from_polar(1.0, 0.5)']
        if name == 'Fraction':
            return ['fraction(1, 2)', 'fraction(0)', 'fraction(-3, 7)', 'fraction(%s, 3)' % xint(1 << 70)]
        if name == 'Duration':
            fl = self.get(FLOAT, n)
            return ['seconds(%s)' % fl[0], 'days(1.5)', 'seconds(%s)' % fl[-1]]
        if name == 'Date':
            return ['date(2451545)', 'date(0)', 'date(-1000000)']
        if name == 'Datetime':
            return ['datetime(0.0)', 'datetime(1600000000.5)', 'datetime(-86401.0)']
        if name == 'JSON':
            return ['json(1)', 'json("a")', 'json([json(1.5), json(())])', 'json(true)']
        if name == 'ContinuousDistribution':
            return ['normal_distribution(0.0, 1.0)', 'exp_distribution(2.0)', 'rectangular_distribution(0.0, 1.0)',
                    'beta_distribution(0.5, 0.5)', 'students_t_distribution(0.0, 1.0, 1.0)', 'lognormal_distribution(0.0, 1.0)',
                    'weibull_distribution(1.0, 1.0)', 'gamma_distribution(1.0, 1.0)', 'chisq_distribution(1)',
                    'fisher_snedecor_distribution(1.0, 1.0)', 'triangular_distribution(0.0, 1.0)', 'standard_uniform_distribution()']
        if name == 'DiscreteDistribution':
            return ['binomial_distribution(3, 0.5)', 'poisson_distribution(1.0)', 'uniform_distribution(0, 3)',
                    'geometric_distribution(0.5)', 'hypergeometric_distribution(5, 2, 3)', 'negative_binomial_distribution(2.0, 0.5)',
                    'custom_distribution([(0, 1.0), (5, 3.0)])', 'sample_distribution([1, 1, 2])']
        if name == 'Matrix':
            el = self.get(args[0], n)
            if not el:
                return []
            return ['full(2, 2, %s)' % el[0], 'matrix(1, 2, [%s, %s])' % (el[0], el[-1])]
        if name == 'LinearRegression':
            return ['linear_regression_least_squares([1.0, 2.0, 3.0].to_generator(), [2.0, 4.1, 5.9].to_generator())']
        if name == 'Regex':
            return ['regex("a+")']
        if name == 'Match':
            return []
        return []

    def _setctor(self, el):
        if el in (INT, STR, FLOAT, BOOL):
            return 'set<%s>()' % render_type(el)
        return None

    def _mapctor(self, key):
        if key in (INT, STR, FLOAT, BOOL):
            return 'mapping<%s>()' % render_type(key)
        return None


def instantiate(sig, generic_choices=(INT, STR)):
    """yield (binding, param types, optional flags, return type) for a static signature; generics bound to each choice"""
    try:
        params = [(parse_type(p['t']), not p['req']) for p in sig['params']]
        ret = parse_type(sig['ret'])
    except TypeParseError:
        return
    gens = sig.get('generics') or []
    if not gens:
        yield {}, [p[0] for p in params], [p[1] for p in params], ret
        return
    for choice in generic_choices:
        bind = {g: choice for g in gens}
        yield bind, [subst(p[0], bind) for p in params], [p[1] for p in params], subst(ret, bind)


def arities(opt_flags):
    """argument counts a signature accepts"""
    req = 0
    for f in opt_flags:
        if f:
            break
        req += 1
    return list(range(req, len(opt_flags) + 1))


def arg_tuples(pools, ptypes, n_per_type, cap):
    """all tuples for arity<=2, diagonal+single-coordinate variation beyond; capped"""
    parts = [pools.get(t, n_per_type) for t in ptypes]
    if any(not p for p in parts):
        return None
    if len(parts) <= 2:
        combos = list(itertools.product(*parts))
    else:
        firsts = [p[0] for p in parts]
        combos = [tuple(firsts)]
        for i, p in enumerate(parts):
            for alt in p[1:]:
                combos.append(tuple(firsts[:i] + [alt] + firsts[i + 1:]))
        # pairs of varied coordinates for the first two parameters
        for a in parts[0][1:]:
            for b in parts[1][1:]:
                combos.append(tuple([a, b] + firsts[2:]))
    return combos[:cap]


def call_src(name, args):
    return '%s(%s)' % (name, ', '.join(args))
