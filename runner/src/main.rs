//! xr-run: JSON-lines job runner — the only code of the harness that touches the subject.
//! One job = one closed test case: source texts, a limits record, a list of host operations.
//! The runner never interprets results; it dumps them.
use rand::rngs::StdRng;
use rand::{Error, RngCore, SeedableRng};
use serde_json::{json, Value};
use std::cell::{Cell, RefCell};
use std::io::{BufRead, Write};
use std::panic::{catch_unwind, AssertUnwindSafe};
use std::time::{Duration, Instant};
use xray::builtin::builtin_permissions as bp;
use xray::builtin::verif_hooks as vh;
use xray::permissions::PermissionSet;
use xray::root_compilation_scope::RootCompilationScope;
use xray::root_runtime_scope::{EvaluatedValue, RootEvaluationScope};
use xray::runtime::{RTCell, RuntimeLimits};
use xray::std_compilation_scope;
use xray::time_provider::TimeProvider;
use xray::xvalue::XValue;

thread_local! {
    static RNG_DRAWS: Cell<u64> = Cell::new(0);
    static RNG_CREATED: Cell<u64> = Cell::new(0);
    static CLOCK_READS: Cell<u64> = Cell::new(0);
    static WRITES: Cell<u64> = Cell::new(0);
    static LAST_PANIC: RefCell<Option<(String, String)>> = RefCell::new(None);
    static PROGRESS: Cell<bool> = Cell::new(false);
}

pub struct CountingRng(StdRng);

impl RngCore for CountingRng {
    fn next_u32(&mut self) -> u32 {
        RNG_DRAWS.with(|c| c.set(c.get() + 1));
        self.0.next_u32()
    }
    fn next_u64(&mut self) -> u64 {
        RNG_DRAWS.with(|c| c.set(c.get() + 1));
        self.0.next_u64()
    }
    fn fill_bytes(&mut self, dest: &mut [u8]) {
        RNG_DRAWS.with(|c| c.set(c.get() + 1));
        self.0.fill_bytes(dest)
    }
    fn try_fill_bytes(&mut self, dest: &mut [u8]) -> Result<(), Error> {
        RNG_DRAWS.with(|c| c.set(c.get() + 1));
        self.0.try_fill_bytes(dest)
    }
}

impl SeedableRng for CountingRng {
    type Seed = [u8; 32];
    fn from_seed(seed: Self::Seed) -> Self {
        RNG_CREATED.with(|c| c.set(c.get() + 1));
        Self(StdRng::from_seed(seed))
    }
    // the runtime creates its random source with from_entropy; make it deterministic
    fn from_entropy() -> Self {
        Self::from_seed([7u8; 32])
    }
}

pub struct CountingWriter {
    buf: Vec<u8>,
}

impl Write for CountingWriter {
    fn write(&mut self, data: &[u8]) -> std::io::Result<usize> {
        WRITES.with(|c| c.set(c.get() + 1));
        self.buf.extend_from_slice(data);
        Ok(data.len())
    }
    fn flush(&mut self) -> std::io::Result<()> {
        Ok(())
    }
}

pub struct FixedClock(f64);

impl TimeProvider for FixedClock {
    fn unix_now(&self) -> f64 {
        CLOCK_READS.with(|c| c.set(c.get() + 1));
        self.0
    }
}

type W = CountingWriter;
type R = CountingRng;
type T = FixedClock;

fn opt_usize(v: &Value) -> Option<usize> {
    v.as_u64().map(|x| x as usize)
}

fn mk_limits(job: &Value) -> RuntimeLimits {
    let l = &job["limits"];
    let mut permissions = PermissionSet::default();
    if let Some(p) = job["perms"].as_object() {
        for (k, v) in p {
            let perm = match k.as_str() {
                "now" => &bp::NOW,
                "print" => &bp::PRINT,
                "print_debug" => &bp::PRINT_DEBUG,
                "random" => &bp::RANDOM,
                "regex" => &bp::REGEX,
                "sleep" => &bp::SLEEP,
                _ => continue,
            };
            match v.as_bool() {
                Some(true) => permissions.allow(perm),
                Some(false) => permissions.forbid(perm),
                None => {}
            }
        }
    }
    RuntimeLimits {
        size_limit: opt_usize(&l["size"]),
        depth_limit: opt_usize(&l["depth"]),
        recursion_limit: opt_usize(&l["recursion"]),
        ud_call_limit: opt_usize(&l["calls"]),
        maximum_search: opt_usize(&l["search"]),
        time_limit: if l["time0"].as_bool() == Some(true) {
            Some(Duration::from_secs(0))
        } else {
            l["time_ms"].as_u64().map(Duration::from_millis)
        },
        permissions,
    }
}

fn take_panic() -> Value {
    let p = LAST_PANIC.with(|p| p.borrow_mut().take());
    match p {
        Some((msg, loc)) => json!({"panic": {"msg": msg, "loc": loc}}),
        None => json!({"panic": {"msg": "?", "loc": "?"}}),
    }
}

fn counters(rt: &RTCell<W, R, T>, out_pos: &mut usize) -> Value {
    let stats_out = {
        let st = rt.stats.borrow();
        let buf = &st.stdout.buf;
        let s = String::from_utf8_lossy(&buf[*out_pos..]).to_string();
        *out_pos = buf.len();
        s
    };
    json!({
        "out": stats_out,
        "ud": vh::ud_calls(rt),
        "bytes": vh::accounted_bytes(rt),
        "peak": vh::peak_bytes(rt),
        "writes": WRITES.with(|c| c.get()),
        "clock": CLOCK_READS.with(|c| c.get()),
        "rng": RNG_DRAWS.with(|c| c.get()),
        "rng_created": RNG_CREATED.with(|c| c.get()),
    })
}

fn err_class(text: &str) -> String {
    if let Some(pos) = text.rfind('[') {
        if text.ends_with(']') {
            return text[pos + 1..text.len() - 1].to_string();
        }
    }
    "Syntax".to_string()
}

fn run_ops(
    comp: &RootCompilationScope<W, R, T>,
    job: &Value,
    steps: &[Value],
    first_index: usize,
    replies: &mut Vec<Value>,
) {
    let dump_opts = vh::DumpOptions {
        max_items: job["dump"]["max_items"].as_u64().unwrap_or(12) as usize,
        max_depth: job["dump"]["max_depth"].as_u64().unwrap_or(8) as usize,
        repr: job["dump"]["repr"].as_bool().unwrap_or(false),
    };
    let now = job["now"].as_f64().unwrap_or(1_600_000_000.0);
    let mk_runtime = || -> RTCell<W, R, T> {
        mk_limits(job).to_runtime(CountingWriter { buf: Vec::new() }, FixedClock(now))
    };
    let mut rt: RTCell<W, R, T> = mk_runtime();
    let mut out_pos = 0usize;
    let mut eval: Option<RootEvaluationScope<'_, W, R, T>> = None;
    let mut kept: Vec<EvaluatedValue<W, R, T>> = Vec::new();
    let reinst_on_panic = job["reinst_on_panic"].as_bool().unwrap_or(true);

    for (step_no, step) in steps.iter().enumerate() {
        progress(first_index + step_no);
        let op = step["op"].as_str().unwrap_or("");
        let mut reply = match op {
            "inst" => {
                kept.clear();
                eval = None;
                if step["fresh_runtime"].as_bool().unwrap_or(true) {
                    rt = mk_runtime();
                    out_pos = 0;
                }
                if step["trace"].as_bool() == Some(true) {
                    vh::start_alloc_trace(&rt);
                }
                let rtc = rt.clone();
                let r = catch_unwind(AssertUnwindSafe(|| {
                    RootEvaluationScope::from_compilation_scope(comp, rtc)
                }));
                match r {
                    Ok(Ok(e)) => {
                        eval = Some(e);
                        json!({"ok": true})
                    }
                    Ok(Err(v)) => json!({"viol": vh::violation_name(&v)}),
                    Err(_) => take_panic(),
                }
            }
            "get" | "call" | "callv" => {
                let name = step["name"].as_str().unwrap_or("");
                match &eval {
                    None => json!({"skip": "no evaluation scope"}),
                    Some(e) => {
                        let keep = step["keep"].as_bool().unwrap_or(false);
                        let r = catch_unwind(AssertUnwindSafe(
                            || -> (Value, Option<EvaluatedValue<W, R, T>>) {
                                let value: EvaluatedValue<W, R, T> = if op == "get" {
                                    match e.get_value(name) {
                                        Ok(v) => v.clone(),
                                        Err(err) => {
                                            return (json!({"host_err": format!("{err:?}")}), None)
                                        }
                                    }
                                } else {
                                    let res = if op == "call" {
                                        match e.get_user_defined_function(name) {
                                            Ok(f) => e.run_function(f, vec![]),
                                            Err(err) => {
                                                return (
                                                    json!({"host_err": format!("{err:?}")}),
                                                    None,
                                                )
                                            }
                                        }
                                    } else {
                                        match e.get_value(name) {
                                            Ok(Ok(v)) => match &v.value {
                                                XValue::Function(f) => e.run_function(f, vec![]),
                                                _ => {
                                                    return (
                                                        json!({"host_err": "not a function"}),
                                                        None,
                                                    )
                                                }
                                            },
                                            Ok(Err(err)) => {
                                                return (json!({"err": err.error.clone()}), None)
                                            }
                                            Err(err) => {
                                                return (
                                                    json!({"host_err": format!("{err:?}")}),
                                                    None,
                                                )
                                            }
                                        }
                                    };
                                    match res {
                                        Err(v) => {
                                            return (json!({"viol": vh::violation_name(&v)}), None)
                                        }
                                        Ok(t) => t.unwrap_value(),
                                    }
                                };
                                // counters are read before the dump forces lazy values
                                let ud = vh::ud_calls(&rt);
                                let bytes = vh::accounted_bytes(&rt);
                                let mut d = if step["nodump"].as_bool() == Some(true) {
                                    match &value {
                                        Ok(_) => json!({"ok": true}),
                                        Err(er) => json!({"err": er.error.clone()}),
                                    }
                                } else {
                                    vh::dump_value(&value, e, &dump_opts)
                                };
                                if let Some(o) = d.as_object_mut() {
                                    o.insert("ud0".into(), json!(ud));
                                    o.insert("bytes0".into(), json!(bytes));
                                }
                                (d, if keep { Some(value) } else { None })
                            },
                        ));
                        let r = r.map(|(v, k)| {
                            if let Some(k) = k {
                                kept.push(k);
                            }
                            v
                        });
                        match r {
                            Ok(v) => v,
                            Err(_) => {
                                let p = take_panic();
                                if reinst_on_panic {
                                    // a panic may leave the scope in an arbitrary state: start afresh
                                    kept.clear();
                                    eval = None;
                                    rt = mk_runtime();
                                    out_pos = 0;
                                    let rtc = rt.clone();
                                    if let Ok(Ok(e2)) = catch_unwind(AssertUnwindSafe(|| {
                                        RootEvaluationScope::from_compilation_scope(comp, rtc)
                                    })) {
                                        eval = Some(e2);
                                    }
                                }
                                p
                            }
                        }
                    }
                }
            }
            "reset_calls" => {
                if step["alt"].as_bool() == Some(true) {
                    rt.reset_call_limit();
                } else {
                    rt.reset_ud_calls();
                }
                json!({"ok": true})
            }
            "reset_timeout" => {
                rt.reset_timeout();
                json!({"ok": true})
            }
            "drop_results" => {
                kept.clear();
                json!({"ok": true})
            }
            "drop_last" => {
                kept.pop();
                json!({"ok": true})
            }
            "drop_scope" => {
                kept.clear();
                eval = None;
                json!({"ok": true})
            }
            "stats" => json!({"ok": true}),
            "trace_start" => {
                vh::start_alloc_trace(&rt);
                json!({"ok": true})
            }
            "trace_take" => json!({"trace": vh::take_alloc_trace(&rt)}),
            "types" => {
                let mut m = serde_json::Map::new();
                if let Some(names) = step["names"].as_array() {
                    for n in names {
                        if let Some(n) = n.as_str() {
                            let t = catch_unwind(AssertUnwindSafe(|| vh::static_type(comp, n)));
                            m.insert(
                                n.to_string(),
                                match t {
                                    Ok(Some(s)) => json!(s),
                                    Ok(None) => Value::Null,
                                    Err(_) => take_panic(),
                                },
                            );
                        }
                    }
                }
                json!({ "types": m })
            }
            "signatures" => json!({"signatures": vh::signatures(comp)}),
            other => json!({"host_err": format!("unknown op {other}")}),
        };
        let (ud0, bytes0) = match reply.as_object_mut() {
            Some(o) => (o.remove("ud0"), o.remove("bytes0")),
            None => (None, None),
        };
        let mut reply = json!({"v": reply, "c": counters(&rt, &mut out_pos)});
        if let (Some(u), Some(b)) = (ud0, bytes0) {
            reply["ud0"] = u;
            reply["bytes0"] = b;
        }
        replies.push(reply);
    }
    drop(kept);
    drop(eval);
    // after everything is dropped the accounted total must be back to zero
    replies.push(json!({"final_bytes": vh::accounted_bytes(&rt)}));
}

/// tells the supervisor which step is in flight, so that a hang or an abort is attributed exactly
fn progress(step: usize) {
    if PROGRESS.with(|p| p.get()) {
        let mut o = std::io::stdout().lock();
        let _ = writeln!(o, "#{step}");
        let _ = o.flush();
    }
}

fn run_job(job: &Value) -> Value {
    PROGRESS.with(|p| p.set(job["progress"].as_bool().unwrap_or(true)));
    RNG_DRAWS.with(|c| c.set(0));
    RNG_CREATED.with(|c| c.set(0));
    CLOCK_READS.with(|c| c.set(0));
    WRITES.with(|c| c.set(0));
    let started = Instant::now();
    let mut replies: Vec<Value> = Vec::new();
    let steps: Vec<Value> = job["steps"].as_array().cloned().unwrap_or_default();
    if job["parse_only"].as_bool() == Some(true) {
        // syntax check only, through the public pest parser
        use xray::parser::{Rule, XRayParser};
        use pest::Parser;
        for step in &steps {
            if let Some(src) = step["feed"].as_str() {
                let r = catch_unwind(AssertUnwindSafe(|| {
                    XRayParser::parse(Rule::header, src).is_ok()
                }));
                replies.push(match r {
                    Ok(b) => json!({ "parses": b }),
                    Err(_) => take_panic(),
                });
            }
        }
        return json!({"id": job["id"], "replies": replies, "wall_us": started.elapsed().as_micros() as u64});
    }
    let comp_res = catch_unwind(|| std_compilation_scope::<W, R, T>());
    let mut comp = match comp_res {
        Ok(c) => c,
        Err(_) => {
            return json!({"id": job["id"], "fatal": take_panic()});
        }
    };
    let mut i = 0;
    while i < steps.len() {
        progress(i);
        if let Some(src) = steps[i]["feed"].as_str() {
            let t0 = Instant::now();
            let r = catch_unwind(AssertUnwindSafe(|| match comp.feed_file(src) {
                Ok(()) => json!({"ok": true}),
                Err(e) => {
                    let text = format!("{e}");
                    let class = err_class(&text);
                    json!({"cerr": {"class": class, "text": text}})
                }
            }));
            let reply = match r {
                Ok(v) => v,
                Err(_) => take_panic(),
            };
            replies.push(json!({
                "v": reply,
                "us": t0.elapsed().as_micros() as u64,
                "fx": [
                    WRITES.with(|c| c.get()),
                    CLOCK_READS.with(|c| c.get()),
                    RNG_CREATED.with(|c| c.get())
                ],
            }));
            i += 1;
        } else {
            let mut j = i;
            while j < steps.len() && steps[j]["feed"].as_str().is_none() {
                j += 1;
            }
            run_ops(&comp, job, &steps[i..j], i, &mut replies);
            i = j;
        }
    }
    json!({"id": job["id"], "replies": replies, "wall_us": started.elapsed().as_micros() as u64})
}

fn main() {
    std::panic::set_hook(Box::new(|info| {
        let msg = if let Some(s) = info.payload().downcast_ref::<&str>() {
            s.to_string()
        } else if let Some(s) = info.payload().downcast_ref::<String>() {
            s.clone()
        } else {
            "non-string panic".to_string()
        };
        let loc = info
            .location()
            .map(|l| format!("{}:{}", l.file(), l.line()))
            .unwrap_or_default();
        LAST_PANIC.with(|p| *p.borrow_mut() = Some((msg, loc)));
    }));
    let stack_mb: usize = std::env::var("XR_STACK_MB")
        .ok()
        .and_then(|s| s.parse().ok())
        .unwrap_or(1024);
    let args: Vec<String> = std::env::args().collect();
    if args.len() >= 3 && args[1] == "--one" {
        let text = std::fs::read_to_string(&args[2]).expect("cannot read job file");
        let v: Value = serde_json::from_str(&text).expect("bad json");
        let mut job = if v.get("job").is_some() { v["job"].clone() } else { v };
        job["progress"] = json!(false);
        let h = std::thread::Builder::new()
            .stack_size(stack_mb << 20)
            .spawn(move || run_job(&job))
            .unwrap();
        println!("{}", serde_json::to_string_pretty(&h.join().unwrap()).unwrap());
        return;
    }
    let stdin = std::io::stdin();
    let stdout = std::io::stdout();
    for line in stdin.lock().lines() {
        let line = match line {
            Ok(l) => l,
            Err(_) => break,
        };
        if line.trim().is_empty() {
            continue;
        }
        let job: Value = match serde_json::from_str(&line) {
            Ok(v) => v,
            Err(e) => {
                let mut o = stdout.lock();
                writeln!(o, "{}", json!({"fatal": format!("bad job json: {e}")})).unwrap();
                o.flush().unwrap();
                continue;
            }
        };
        // each job on a fresh big-stack thread: deep recursion of the subject must not kill us
        let h = std::thread::Builder::new()
            .stack_size(stack_mb << 20)
            .spawn(move || run_job(&job))
            .unwrap();
        let reply = match h.join() {
            Ok(v) => v,
            Err(_) => json!({"fatal": "job thread panicked outside catch_unwind"}),
        };
        let mut o = stdout.lock();
        writeln!(o, "{}", reply).unwrap();
        o.flush().unwrap();
    }
}
